
// ---- verif C11: string interning table (appended to vm.rs; sees the private string_store module) --
#[cfg(kani)]
mod verif_c11 {
    use super::string_store::ObjStringStore;
    use super::*;
    use crate::memory::verif_mem::leak_gc;

    /// A rooted string on a leaked, heap-less box: the table logic is independent of the collector.
    fn mk_string(text: &str, hash: u64) -> Root<ObjString> {
        leak_gc(ObjString::new(Gc::dangling(), text, hash)).as_root()
    }

    const TEXTS: [&str; 5] = ["a", "b", "a", "b", "a"];

    /// S1 history harness: K insertions into a fresh store (K >= 4 crosses the 4 -> 8 growth, which
    /// happens before the 4th insertion). Key i is (hash_i, TEXTS[i]) with hash_i symbolic in the low bits
    /// selected by `hmask`: any pattern of low-bit collisions, probe chains that wrap around the table
    /// end, identical full hashes with equal texts (the same key: inserted once, as the VM does after a
    /// failed lookup) and with different texts (a true collision). After the insertions every key is found
    /// and yields the very object first inserted for it (identity survives growth), and keys never
    /// inserted (a symbolic hash with a text that was used, or with one that never was) are found iff
    /// they were inserted.
    fn store_history<const K: usize>(hmask: u64) {
        let mut store = ObjStringStore::new();
        let hs: [u64; K] = kani::any();
        let mut gcs: [Option<Gc<ObjString>>; K] = [None; K];
        let mut first: [usize; K] = [0; K];
        let mut i = 0;
        while i < K {
            let h = hs[i] & hmask;
            let text = TEXTS[i];
            // the VM only inserts after a failed lookup: a key is inserted once
            let mut dup = false;
            let mut j = 0;
            while j < i {
                if (j % 2) == (i % 2) && (hs[j] & hmask) == h {
                    if !dup {
                        first[i] = first[j];
                    }
                    dup = true;
                }
                j += 1;
            }
            let found = store.get((h, text)).map(|r| r.as_gc());
            if !dup {
                assert!(found.is_none(), "a key never inserted is not found");
                let r = mk_string(text, h);
                gcs[i] = Some(r.as_gc());
                first[i] = i;
                let prev = store.insert(r);
                assert!(prev.is_none(), "inserting a new key replaces nothing");
            } else {
                assert!(found == gcs[first[i]], "a key inserted before resolves to its first object");
            }
            i += 1;
        }
        // every key resolves to the object first interned for its content
        let mut distinct = 0usize;
        let mut j = 0;
        while j < K {
            let got = store.get((hs[j] & hmask, TEXTS[j])).map(|r| r.as_gc());
            assert!(got.is_some() && got == gcs[first[j]], "lookup returns the object first interned for that content");
            if gcs[j].is_some() {
                distinct += 1;
            }
            j += 1;
        }
        // keys that may or may not have been inserted
        let fh: u64 = kani::any();
        let fh = fh & hmask;
        let mut present_a = false;
        let mut j = 0;
        while j < K {
            if j % 2 == 0 && (hs[j] & hmask) == fh {
                present_a = true;
            }
            j += 1;
        }
        assert!(store.get((fh, "a")).is_some() == present_a, "a key is found iff it was inserted");
        assert!(store.get((fh, "c")).is_none(), "a text never interned is not found under any hash");
        kani::cover!(distinct == K, "reach-all-distinct");
        kani::cover!(distinct == K && (hs[0] & hmask) == (hs[1] & hmask), "reach-identical-full-hash-different-text");
        std::mem::forget(store);
    }

    #[kani::proof]
    #[kani::unwind(7)]
    fn c11_store_history_3() {
        store_history::<3>(0x7);
    }

    #[kani::proof]
    #[kani::unwind(9)]
    fn c11_store_history_4_growth() {
        store_history::<4>(0xf);
    }

    #[kani::proof]
    #[kani::unwind(10)]
    fn c11_store_history_5_growth() {
        store_history::<5>(0xf);
    }

    /// Twin: must FAIL.
    #[kani::proof]
    #[kani::unwind(7)]
    fn c11_twin_must_fail() {
        let mut store = ObjStringStore::new();
        let h: u64 = kani::any();
        let r = mk_string("a", h & 7);
        store.insert(r);
        assert!(false, "twin");
    }
}
