
// ---- verif C02-K3: equality on self-referential data (appended to object.rs) -----------------------
#[cfg(kani)]
mod verif_c02_cycles {
    use super::*;
    use crate::memory::verif_mem::Placed;
    pub(crate) use std::cmp::PartialEq as PEq;

    /// By restriction: the vectors of these harnesses hold vectors and numbers only. Elements read back
    /// from a Vec buffer have an unknown discriminant to CBMC, so without these cuts every level of the
    /// recursion also encodes the tuple arm and the hashbrown iteration of the HashMap arm.
    fn hash_map_eq_not_modelled(_a: &ObjHashMap, _b: &ObjHashMap) -> bool {
        panic!("verif: ObjHashMap == not modelled in the vector-cycle harnesses")
    }
    fn tuple_eq_not_modelled(_a: &ObjTuple, _b: &ObjTuple) -> bool {
        panic!("verif: ObjTuple == not modelled in the vector-cycle harnesses")
    }

    /// Two DISTINCT vectors that contain each other: `a == b` recurses a -> b -> a -> ... without bound.
    /// With the recursion unwound 6 times the unwinding assertion of the recursion fails: evaluation is
    /// deeper than any fixed bound for an input of size 2 (natively: the process aborts with a stack
    /// overflow). This is the recorded finding `vec-eq-cycle`.
    #[kani::proof]
    #[kani::unwind(4)]
    #[kani::stub(<crate::object::ObjHashMap as crate::object::verif_c02_cycles::PEq>::eq, hash_map_eq_not_modelled)]
    #[kani::stub(<crate::object::ObjTuple as crate::object::verif_c02_cycles::PEq>::eq, tuple_eq_not_modelled)]
    fn c02_vec_eq_mutually_containing_terminates() {
        let mut a = Placed::new(RefCell::new(ObjVec::new(Gc::dangling())));
        let mut b = Placed::new(RefCell::new(ObjVec::new(Gc::dangling())));
        let (ga, gb) = (a.gc(), b.gc());
        ga.borrow_mut().elements.push(Value::ObjVec(gb));
        gb.borrow_mut().elements.push(Value::ObjVec(ga));
        kani::cover!(true, "reach");
        let eq = Value::ObjVec(ga) == Value::ObjVec(gb);
        assert!(eq || !eq, "comparison returns");
        std::mem::forget(a);
        std::mem::forget(b);
    }

    /// Control 1: a vector that contains itself compared with itself terminates (identity short-cut).
    #[kani::proof]
    #[kani::unwind(4)]
    #[kani::stub(<crate::object::ObjHashMap as crate::object::verif_c02_cycles::PEq>::eq, hash_map_eq_not_modelled)]
    #[kani::stub(<crate::object::ObjTuple as crate::object::verif_c02_cycles::PEq>::eq, tuple_eq_not_modelled)]
    fn c02_vec_eq_terminates_on_self_containing() {
        let mut a = Placed::new(RefCell::new(ObjVec::new(Gc::dangling())));
        let ga = a.gc();
        ga.borrow_mut().elements.push(Value::ObjVec(ga));
        kani::cover!(true, "reach");
        assert!(Value::ObjVec(ga) == Value::ObjVec(ga), "a self-containing vector equals itself");
        std::mem::forget(a);
    }

    /// Control 2: two separately built acyclic nestings of depth 2 terminate within the same bound and
    /// give the element-wise answer - so the failed unwinding assertion of the mutual case is not an
    /// artefact of the bound.
    #[kani::proof]
    #[kani::unwind(4)]
    #[kani::stub(<crate::object::ObjHashMap as crate::object::verif_c02_cycles::PEq>::eq, hash_map_eq_not_modelled)]
    #[kani::stub(<crate::object::ObjTuple as crate::object::verif_c02_cycles::PEq>::eq, tuple_eq_not_modelled)]
    fn c02_vec_eq_terminates_on_acyclic_nesting() {
        let x: f64 = kani::any();
        let mut i1 = Placed::new(RefCell::new(ObjVec::with_elements(Gc::dangling(), vec![Value::Number(x)])));
        let mut i2 = Placed::new(RefCell::new(ObjVec::with_elements(Gc::dangling(), vec![Value::Number(x)])));
        let mut o1 = Placed::new(RefCell::new(ObjVec::with_elements(Gc::dangling(), vec![Value::ObjVec(i1.gc())])));
        let mut o2 = Placed::new(RefCell::new(ObjVec::with_elements(Gc::dangling(), vec![Value::ObjVec(i2.gc())])));
        let eq = Value::ObjVec(o1.gc()) == Value::ObjVec(o2.gc());
        kani::cover!(eq, "reach-equal");
        assert!(eq == (x == x), "separately built nestings compare element-wise (NaN != NaN)");
        std::mem::forget(i1);
        std::mem::forget(i2);
        std::mem::forget(o1);
        std::mem::forget(o2);
    }

    /// Twin: must FAIL.
    #[kani::proof]
    #[kani::unwind(4)]
    #[kani::stub(<crate::object::ObjHashMap as crate::object::verif_c02_cycles::PEq>::eq, hash_map_eq_not_modelled)]
    #[kani::stub(<crate::object::ObjTuple as crate::object::verif_c02_cycles::PEq>::eq, tuple_eq_not_modelled)]
    fn c02_cycles_twin_must_fail() {
        let mut a = Placed::new(RefCell::new(ObjVec::new(Gc::dangling())));
        let ga = a.gc();
        assert!(Value::ObjVec(ga) == Value::ObjVec(ga));
        assert!(false, "twin");
    }
}
