
// ---- verif C02-K3: equality on self-referential data (appended to object.rs) -----------------------
#[cfg(kani)]
mod verif_c02_cycles {
    use super::*;
    use crate::memory::verif_mem::Placed;

    /// Two DISTINCT vectors that contain each other: `a == b` recurses a -> b -> a -> ... without bound.
    /// With the recursion unwound 6 times the unwinding assertion of the recursion fails: evaluation is
    /// deeper than any fixed bound for an input of size 2 (natively: the process aborts with a stack
    /// overflow). This is the recorded finding `vec-eq-cycle`.
    #[kani::proof]
    #[kani::unwind(6)]
    fn c02_vec_eq_mutually_containing_terminates() {
        let mut a = Placed::new(RefCell::new(ObjVec::new(Gc::dangling())));
        let mut b = Placed::new(RefCell::new(ObjVec::new(Gc::dangling())));
        let (ga, gb) = (a.gc(), b.gc());
        ga.borrow_mut().elements.push(Value::ObjVec(gb));
        gb.borrow_mut().elements.push(Value::ObjVec(ga));
        kani::cover!(true, "reach");
        let eq = Value::ObjVec(ga) == Value::ObjVec(gb);
        assert!(eq || !eq, "comparison returns");
        std::mem::forget(a);
        std::mem::forget(b);
    }

    /// Controls: a vector that contains itself compared with itself (identity short-cut), and two
    /// separately built acyclic nestings - both terminate within the same bound and give the right answer.
    #[kani::proof]
    #[kani::unwind(6)]
    fn c02_vec_eq_terminates_on_self_and_acyclic() {
        let mut a = Placed::new(RefCell::new(ObjVec::new(Gc::dangling())));
        let ga = a.gc();
        ga.borrow_mut().elements.push(Value::ObjVec(ga));
        assert!(Value::ObjVec(ga) == Value::ObjVec(ga), "a self-containing vector equals itself");
        let x: f64 = kani::any();
        let mut i1 = Placed::new(RefCell::new(ObjVec::with_elements(Gc::dangling(), vec![Value::Number(x)])));
        let mut i2 = Placed::new(RefCell::new(ObjVec::with_elements(Gc::dangling(), vec![Value::Number(x)])));
        let mut o1 = Placed::new(RefCell::new(ObjVec::with_elements(Gc::dangling(), vec![Value::ObjVec(i1.gc())])));
        let mut o2 = Placed::new(RefCell::new(ObjVec::with_elements(Gc::dangling(), vec![Value::ObjVec(i2.gc())])));
        let eq = Value::ObjVec(o1.gc()) == Value::ObjVec(o2.gc());
        kani::cover!(eq, "reach-equal");
        assert!(eq == (x == x), "separately built nestings compare element-wise (NaN != NaN)");
        std::mem::forget(a);
        std::mem::forget(i1);
        std::mem::forget(i2);
        std::mem::forget(o1);
        std::mem::forget(o2);
    }

    /// Twin: must FAIL.
    #[kani::proof]
    #[kani::unwind(6)]
    fn c02_cycles_twin_must_fail() {
        let mut a = Placed::new(RefCell::new(ObjVec::new(Gc::dangling())));
        let ga = a.gc();
        assert!(Value::ObjVec(ga) == Value::ObjVec(ga));
        assert!(false, "twin");
    }
}
