
// ---- verif C02-K4: the call-depth guard (appended to vm.rs) ---------------------------------------
// `call_closure` on a bare Vm whose running fiber already has FRAMES_MAX-1 / FRAMES_MAX frames: a frame
// is pushed iff fewer than FRAMES_MAX exist, otherwise an error is routed and nothing is pushed (the
// frame list never outgrows the capacity the value stack was sized for).
#[cfg(kani)]
mod verif_c02 {
    use super::verif_vm::*;
    use super::*;
    use crate::verif_stubs::*;
    #[allow(unused_imports)]
    use crate::object::CallFrame;

    fn deep_fiber(st: &mut FiberStore, vm: &mut Vm, frames: usize) -> FiberParts {
        let f = st.init(vec![0u8, 1, 2, 3], 1);
        activate(vm, &f);
        f.fiber.borrow_mut().stack.push(Value::ObjClosure(f.closure));
        let mut i = 1;
        while i < frames {
            f.fiber.borrow_mut().frames.push(CallFrame { closure: f.closure, ip: f.chunk.code.as_ptr(), slot_base: 0 });
            i += 1;
        }
        f
    }

    fn depth_case(frames: usize, arg_count: usize) {
        let mut st = FiberStore::empty();
        let mut vm = bare_vm();
        let f = deep_fiber(&mut st, &mut vm, frames);
        // callee on top of the stack, as the Call opcode leaves it (arity 1 = no parameters)
        f.fiber.borrow_mut().stack.push(Value::ObjClosure(f.closure));
        let mut i = 0;
        while i < arg_count {
            f.fiber.borrow_mut().stack.push(Value::Number(kani::any()));
            i += 1;
        }
        let r = vm.call_closure(f.closure, arg_count);
        let n = f.fiber.borrow().frames.len();
        kani::cover!(true, "reach");
        if arg_count != 0 {
            assert!(r.is_err() && n == frames, "wrong argument count: error, no frame pushed");
        } else if frames >= common::FRAMES_MAX {
            assert!(r.is_err(), "call at the depth limit is reported as an error");
            assert!(n == frames, "and no frame is pushed beyond the limit");
        } else {
            assert!(r.is_ok(), "call below the depth limit succeeds");
            assert!(n == frames + 1 && n <= common::FRAMES_MAX, "exactly one frame is pushed");
            assert!(f.fiber.borrow().frames[n - 1].slot_base == 1, "the new frame starts at the callee's slot");
        }
        std::mem::forget(r);
        std::mem::forget(vm);
    }

    #[kani::proof]
    #[kani::unwind(66)]
    #[kani::stub(std::fmt::format, fmt_stub)]
    #[kani::stub(crate::vm::Vm::new_root_obj_err_from_error, crate::vm::verif_vm::err_instance_stub)]
    #[kani::stub(crate::vm::Vm::new_error_from_value, crate::vm::verif_vm::error_from_value_stub)]
    fn c02_call_at_depth_limit_is_an_error() {
        depth_case(common::FRAMES_MAX, 0);
    }

    #[kani::proof]
    #[kani::unwind(66)]
    #[kani::stub(std::fmt::format, fmt_stub)]
    #[kani::stub(crate::vm::Vm::new_root_obj_err_from_error, crate::vm::verif_vm::err_instance_stub)]
    #[kani::stub(crate::vm::Vm::new_error_from_value, crate::vm::verif_vm::error_from_value_stub)]
    fn c02_call_below_depth_limit_pushes_one_frame() {
        depth_case(common::FRAMES_MAX - 1, 0);
    }

    #[kani::proof]
    #[kani::unwind(8)]
    #[kani::stub(std::fmt::format, fmt_stub)]
    #[kani::stub(crate::vm::Vm::new_root_obj_err_from_error, crate::vm::verif_vm::err_instance_stub)]
    #[kani::stub(crate::vm::Vm::new_error_from_value, crate::vm::verif_vm::error_from_value_stub)]
    fn c02_call_with_wrong_argument_count_is_an_error() {
        depth_case(2, 1);
    }

    /// Twin: must FAIL.
    #[kani::proof]
    #[kani::unwind(8)]
    #[kani::stub(std::fmt::format, fmt_stub)]
    #[kani::stub(crate::vm::Vm::new_root_obj_err_from_error, crate::vm::verif_vm::err_instance_stub)]
    #[kani::stub(crate::vm::Vm::new_error_from_value, crate::vm::verif_vm::error_from_value_stub)]
    fn c02_vm_twin_must_fail() {
        let mut st = FiberStore::empty();
        let mut vm = bare_vm();
        let f = deep_fiber(&mut st, &mut vm, 2);
        f.fiber.borrow_mut().stack.push(Value::ObjClosure(f.closure));
        let _ = vm.call_closure(f.closure, 0);
        assert!(false, "twin");
    }
}
