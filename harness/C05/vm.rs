
// ---- verif C05: operator kernels of the interpreter on scalar operands (appended to vm.rs) --------
// The arithmetic of ten binary operators lives in closures inside `Vm::run`; they are reached through
// the real dispatch loop over the two-instruction program [Op, Return] with symbolic operands.
// The result is read from the frame slot the operator wrote (slot 1).
#[cfg(kani)]
mod verif_c05 {
    use super::verif_vm::*;
    use super::*;
    use crate::verif_stubs::*;

    /// `run` asserts (checked build) that exactly the main module exists.
    fn with_main_module(vm: &mut Vm) {
        use crate::memory::verif_mem::leak_gc;
        let name = leak_gc(ObjString::new(Gc::dangling(), "main", 1));
        let module = leak_gc(RefCell::new(ObjModule::new(Gc::dangling(), name)));
        vm.modules.insert(name, module.as_root());
    }

    fn same(a: f64, b: f64) -> bool {
        a.to_bits() == b.to_bits() || (a != a && b != b)
    }

    /// Runs [op, Return] on a frame holding [closure, a, b]; returns what the operator left in slot 1.
    fn run_binary(op: OpCode, a: Value, b: Value) -> Value {
        let mut vm = bare_vm();
        if cfg!(debug_assertions) {
            with_main_module(&mut vm);
        }
        let mut st = FiberStore::empty();
        let f = st.init(vec![op as u8, OpCode::Return as u8], 1);
        activate(&mut vm, &f);
        vm.push(Value::ObjClosure(f.closure));
        vm.push(a);
        vm.push(b);
        let r = vm.run();
        assert!(r.is_ok(), "a two-number operation does not raise");
        let out = f.fiber.borrow().stack[1];
        std::mem::forget(vm);
        out
    }

    fn run_unary(op: OpCode, a: Value) -> Value {
        let mut vm = bare_vm();
        if cfg!(debug_assertions) {
            with_main_module(&mut vm);
        }
        let mut st = FiberStore::empty();
        let f = st.init(vec![op as u8, OpCode::Return as u8], 1);
        activate(&mut vm, &f);
        vm.push(Value::ObjClosure(f.closure));
        vm.push(a);
        let r = vm.run();
        assert!(r.is_ok(), "a unary operation on its operand kind does not raise");
        let out = f.fiber.borrow().stack[1];
        std::mem::forget(vm);
        out
    }

    fn numbers() -> (f64, f64) {
        (kani::any(), kani::any())
    }

    macro_rules! arith_harness {
        ($name:ident, $op:expr, $reference:expr, $desc:expr) => {
            #[kani::proof]
            #[kani::unwind(4)]
            #[kani::stub(std::fmt::format, fmt_stub)]
            #[kani::stub(std::fmt::write, fmt_write_stub)]
            fn $name() {
                let (x, y) = numbers();
                let got = run_binary($op, Value::Number(x), Value::Number(y));
                let reference: fn(f64, f64) -> f64 = $reference;
                let want = reference(x, y);
                kani::cover!(x > y, "reach-x-greater");
                kani::cover!(x < y, "reach-x-less");
                assert!(matches!(got, Value::Number(z) if same(z, want)), $desc);
            }
        };
    }

    // left operand is the one pushed first: `x op y`
    arith_harness!(c05_add_numbers, OpCode::Add, |x, y| x + y, "x + y");
    arith_harness!(c05_subtract, OpCode::Subtract, |x, y| x - y, "x - y (operand order)");
    arith_harness!(c05_multiply, OpCode::Multiply, |x, y| x * y, "x * y");
    /// Division: the dividend is any f64, the divisor one of nine representative constants (a symbolic
    /// divisor makes the 64-bit float division unsolvable in 20 minutes): operand order and the IEEE
    /// special cases (division by +-0, by inf, by NaN) are visible.
    #[kani::proof]
    #[kani::unwind(4)]
    #[kani::stub(std::fmt::format, fmt_stub)]
    #[kani::stub(std::fmt::write, fmt_write_stub)]
    fn c05_divide() {
        let x: f64 = kani::any();
        let k: u8 = kani::any();
        let y: f64 = match k % 9 {
            0 => 0.0,
            1 => -0.0,
            2 => 1.0,
            3 => 2.0,
            4 => 0.5,
            5 => -3.0,
            6 => f64::INFINITY,
            7 => f64::NAN,
            _ => 1e300,
        };
        let got = run_binary(OpCode::Divide, Value::Number(x), Value::Number(y));
        let want = x / y;
        kani::cover!(k % 9 == 3 && x == 1.0, "reach");
        assert!(matches!(got, Value::Number(z) if same(z, want)), "x / y (operand order)");
    }
    arith_harness!(c05_bitwise_and, OpCode::BitwiseAnd, |x, y| ((x as i64) & (y as i64)) as f64, "x & y on 64-bit integers");
    arith_harness!(c05_bitwise_or, OpCode::BitwiseOr, |x, y| ((x as i64) | (y as i64)) as f64, "x | y on 64-bit integers");
    arith_harness!(c05_bitwise_xor, OpCode::BitwiseXor, |x, y| ((x as i64) ^ (y as i64)) as f64, "x ^ y on 64-bit integers");
    arith_harness!(
        c05_shift_left,
        OpCode::BitShiftLeft,
        |x, y| {
            let (a, s) = (x as i64, y as u32);
            (if s < 64 { a << s } else { 0 }) as f64
        },
        "x << y, zero when the count is 64 or more"
    );
    arith_harness!(
        c05_shift_right,
        OpCode::BitShiftRight,
        |x, y| {
            let (a, s) = (x as i64, y as u32);
            (if s < 64 { a >> s } else { 0 }) as f64
        },
        "x >> y (arithmetic), zero when the count is 64 or more"
    );

    /// Comparison operators and equality on numbers: IEEE semantics, left operand first.
    #[kani::proof]
    #[kani::unwind(4)]
    #[kani::stub(std::fmt::format, fmt_stub)]
    #[kani::stub(std::fmt::write, fmt_write_stub)]
    fn c05_compare_numbers() {
        let (x, y) = numbers();
        let g = run_binary(OpCode::Greater, Value::Number(x), Value::Number(y));
        let l = run_binary(OpCode::Less, Value::Number(x), Value::Number(y));
        let e = run_binary(OpCode::Equal, Value::Number(x), Value::Number(y));
        kani::cover!(x > y, "reach-greater");
        kani::cover!(x != x, "reach-nan");
        assert!(matches!(g, Value::Boolean(b) if b == (x > y)), "x > y");
        assert!(matches!(l, Value::Boolean(b) if b == (x < y)), "x < y");
        assert!(matches!(e, Value::Boolean(b) if b == (x == y)), "x == y");
    }

    /// Unary operators: negate, bitwise not on numbers; logical not on every scalar kind.
    #[kani::proof]
    #[kani::unwind(4)]
    #[kani::stub(std::fmt::format, fmt_stub)]
    #[kani::stub(std::fmt::write, fmt_write_stub)]
    fn c05_unary_operators() {
        let x: f64 = kani::any();
        let b: bool = kani::any();
        let n = run_unary(OpCode::Negate, Value::Number(x));
        assert!(matches!(n, Value::Number(z) if same(z, -x)), "-x");
        let t = run_unary(OpCode::BitwiseNot, Value::Number(x));
        assert!(matches!(t, Value::Number(z) if same(z, !(x as i64) as f64)), "~x on 64-bit integers");
        let l1 = run_unary(OpCode::LogicalNot, Value::Boolean(b));
        assert!(matches!(l1, Value::Boolean(z) if z == !b), "!bool");
        let l2 = run_unary(OpCode::LogicalNot, Value::None);
        assert!(matches!(l2, Value::Boolean(true)), "!nil is true");
        let l3 = run_unary(OpCode::LogicalNot, Value::Number(x));
        assert!(matches!(l3, Value::Boolean(false)), "every number (0 and NaN included) is truthy");
        kani::cover!(true, "reach-end");
    }

    /// Equality across scalar kinds (kinds enumerated, payloads symbolic): values of different kinds
    /// are never equal.
    #[kani::proof]
    #[kani::unwind(5)]
    #[kani::stub(std::fmt::format, fmt_stub)]
    #[kani::stub(std::fmt::write, fmt_write_stub)]
    fn c05_equal_across_kinds() {
        let x: f64 = kani::any();
        let b: bool = kani::any();
        let vals = [Value::Number(x), Value::Boolean(b), Value::None];
        let mut i = 0;
        while i < 3 {
            let mut j = 0;
            while j < 3 {
                let e = run_binary(OpCode::Equal, vals[i], vals[j]);
                let want = if i != j { false } else if i == 0 { x == x } else { true };
                assert!(matches!(e, Value::Boolean(z) if z == want), "equality is kind-wise");
                j += 1;
            }
            i += 1;
        }
        kani::cover!(true, "reach-end");
    }

    /// Twin: must FAIL.
    #[kani::proof]
    #[kani::unwind(4)]
    #[kani::stub(std::fmt::format, fmt_stub)]
    #[kani::stub(std::fmt::write, fmt_write_stub)]
    fn c05_twin_must_fail() {
        let (x, y) = numbers();
        let _ = run_binary(OpCode::Subtract, Value::Number(x), Value::Number(y));
        assert!(false, "twin");
    }
}
