"""C05-T1: the Pratt table, generated from the CURRENT TokenKind enum.

The harness walks every token kind with a concrete index (a symbolic index into the const table of
fn-pointer structs is modelled unfaithfully by Kani - DESIGN.md section 3, probe T1) and compares
precedence, presence and identity of the prefix/infix handlers with the reference ladder of the
language. A token kind that the reference does not know is reported as unencoded."""
import os
import re

LADDER = ["None", "Assignment", "Or", "And", "Equality", "Comparison", "BitwiseOr", "BitwiseXor", "BitwiseAnd",
          "BitShift", "Term", "Factor", "Range", "Unary", "Call", "Primary"]

# token -> (precedence rung, infix handler or None)
INFIX = {
    "LeftParen": ("Call", "call"), "LeftBracket": ("Call", "index"), "Dot": ("Call", "dot"), "DotDot": ("Range", "dotdot"),
    "Minus": ("Term", "binary"), "Plus": ("Term", "binary"),
    "Slash": ("Factor", "binary"), "Star": ("Factor", "binary"), "Percent": ("Factor", "binary"),
    "BangEqual": ("Equality", "binary"), "EqualEqual": ("Equality", "binary"),
    "Greater": ("Comparison", "binary"), "GreaterEqual": ("Comparison", "binary"), "Less": ("Comparison", "binary"), "LessEqual": ("Comparison", "binary"),
    "Amp": ("BitwiseAnd", "binary"), "Bar": ("BitwiseOr", "binary"), "Caret": ("BitwiseXor", "binary"),
    "GreaterGreater": ("BitShift", "binary"), "LessLess": ("BitShift", "binary"),
    "AmpAmp": ("And", "and"), "BarBar": ("Or", "or"),
}
# tokens that can start an expression -> prefix handler
PREFIX = {
    "LeftParen": "grouping", "LeftBrace": "hash_map", "LeftBracket": "vector", "Minus": "unary", "Bang": "unary", "Tilde": "unary",
    "Bar": "lambda", "BarBar": "lambda", "Identifier": "variable", "Str": "string", "Interpolation": "interpolation",
    "Number": "number", "CapSelf": "cap_self", "False": "literal", "Nil": "literal", "True": "literal", "Self_": "self_", "Super": "super_",
}
NO_RULE = {"RightParen", "RightBrace", "RightBracket", "Comma", "MinusEqual", "PlusEqual", "Colon", "SemiColon", "SlashEqual", "StarEqual",
           "Equal", "AmpEqual", "BarEqual", "CaretEqual", "PercentEqual", "GreaterGreaterEqual", "LessLessEqual", "Hash", "Catch", "Class",
           "Else", "Finally", "For", "Fn", "If", "Import", "As", "In", "Return", "Break", "Continue", "Throw", "Try", "Var", "While", "Error", "Eof"}


def generate(src_dir):
    text = open(os.path.join(src_dir, "scanner.rs")).read()
    m = re.search(r"pub enum TokenKind \{(.*?)\n\}", text, re.S)
    kinds = re.findall(r"^\s*(\w+),", m.group(1), re.M) if m else []
    comp = open(os.path.join(src_dir, "compiler.rs")).read()
    unencoded = []
    body = []
    known = set(INFIX) | set(PREFIX) | NO_RULE
    for k in kinds:
        if k not in known:
            unencoded.append("TokenKind::%s has no entry in the reference grouping table" % k)
            continue
        rung, infix = INFIX.get(k, ("None", None))
        prefix = PREFIX.get(k)
        body.append("        {")
        body.append("            let r = &RULES[TokenKind::%s as usize];" % k)
        body.append('            assert!(r.precedence as usize == %d, "%s binds at the %s level");' % (LADDER.index(rung), k, rung))
        if infix:
            body.append('            assert!(r.infix == Some(Parser::%s as ParseFn), "%s is an infix operator handled by %s");' % (infix, k, infix))
        else:
            body.append('            assert!(r.infix.is_none(), "%s is not an infix operator");' % k)
        if prefix:
            body.append('            assert!(r.prefix == Some(Parser::%s as ParseFn), "%s starts an expression handled by %s");' % (prefix, k, prefix))
        else:
            body.append('            assert!(r.prefix.is_none(), "%s cannot start an expression");' % k)
        body.append("        }")
    ladder = "\n".join('        assert!(Precedence::%s as usize == %d, "precedence ladder: %s");' % (n, i, n) for i, n in enumerate(LADDER))
    frm = "\n".join('        assert!(Precedence::from(%d) as usize == %d, "Precedence::from is the identity on rung %d");' % (i, i, i) for i in range(len(LADDER)))
    code = '''
// ---- verif C05-T1: GENERATED grouping-table harness (appended to compiler.rs) --------------------
#[cfg(kani)]
mod verif_c05_rules {
    use super::*;

    /// Every token kind (concrete index): precedence rung, infix handler, prefix handler equal the
    /// reference table of the language; the ladder itself is the C-like one; every binary operator's
    /// right operand is parsed one rung higher (left associativity) and that rung exists.
    #[kani::proof]
    #[kani::unwind(2)]
    fn c05_rules_table_matches_language() {
        assert!(RULES.len() == %d, "one rule per token kind");
%s
%s
%s
        kani::cover!(true, "reach-end");
    }

    /// Twin: must FAIL.
    #[kani::proof]
    fn c05_rules_twin_must_fail() {
        let r = &RULES[TokenKind::Plus as usize];
        let _ = r.precedence as usize;
        assert!(false, "twin");
    }
}
''' % (len(kinds), ladder, frm, "\n".join(body))
    harnesses = [
        {"name": "c05_rules_table_matches_language", "group": "table", "module": "compiler::verif_c05_rules", "unwind": 2,
         "inputs": "all %d token kinds (concrete indices; the table is a constant)" % len(kinds),
         "asserts": "precedence rung, infix and prefix handler identity per token; ladder order; Precedence::from total on the ladder"},
        {"name": "c05_rules_twin_must_fail", "group": "table", "module": "compiler::verif_c05_rules", "twin": True},
    ]
    return {"files": {"compiler.rs": code}, "harnesses": harnesses, "unencoded": unencoded}
