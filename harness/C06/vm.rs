
// ---- verif C06: run-time variable sharing between closures (appended to vm.rs) -------------------
// The run-time half of "closures capture variables, not values": capture_upvalue / closure_impl /
// get|set_upvalue_impl / close_upvalue_impl / return_impl on a bare Vm with one running fiber.
#[cfg(kani)]
mod verif_c06 {
    use super::verif_vm::*;
    use super::*;
    use crate::memory::verif_mem::Placed;
    use crate::verif_stubs::*;

    fn num(v: Value, want: f64) -> bool {
        matches!(v, Value::Number(x) if x.to_bits() == want.to_bits())
    }

    pub(super) struct World {
        pub(super) vm: Vm,
        fiber: Gc<RefCell<ObjFiber>>,
        pub(super) chunk: Gc<Chunk>,
    }

    /// Typed storage for the static objects of the scenario (see verif_mem::Placed); lives in a local of
    /// the proof function and is not moved after `world` has run.
    pub(super) struct Store {
        name: Option<Placed<ObjString>>,
        inner_chunk: Option<Placed<Chunk>>,
        inner_fn: Option<Placed<ObjFunction>>,
        chunk: Option<Placed<Chunk>>,
        function: Option<Placed<ObjFunction>>,
        closure: Option<Placed<ObjClosure>>,
        fiber: Option<Placed<RefCell<ObjFiber>>>,
    }
    pub(super) fn store() -> Store {
        Store { name: None, inner_chunk: None, inner_fn: None, chunk: None, function: None, closure: None, fiber: None }
    }

    /// One running fiber whose frame has `nlocals` number locals above the closure slot. The chunk's
    /// constant 0 is a function with two captured variables; `code` is what the Closure instruction's
    /// operands look like: [const_lo, const_hi, is_local, index, is_local, index] twice, followed by
    /// single-byte operand cells used by the Get/SetUpvalue steps.
    pub(super) fn world(st: &mut Store, vals: &[f64], cap: [(u8, u8); 4]) -> World {
        st.name = Some(Placed::new(ObjString::new(Gc::dangling(), "f", 1)));
        let name = st.name.as_mut().unwrap().gc();
        st.inner_chunk = Some(Placed::new(Chunk {
            code: vec![0u8, 0u8],
            lines: vec![1, 1],
            constant_map: std::collections::HashMap::with_hasher(random_state_stub()),
            constants: Vec::new(),
        }));
        let inner_chunk = st.inner_chunk.as_mut().unwrap().gc();
        st.inner_fn = Some(Placed::new(ObjFunction::new(name, 1, 2, inner_chunk, name)));
        let inner_fn = st.inner_fn.as_mut().unwrap().gc();
        unsafe {
            KANI_FUNCTION = Some(inner_fn);
        }
        let idx = (0u16).to_ne_bytes();
        let code = vec![
            idx[0], idx[1], cap[0].0, cap[0].1, cap[1].0, cap[1].1, // first Closure's operands
            idx[0], idx[1], cap[2].0, cap[2].1, cap[3].0, cap[3].1, // second Closure's operands
            0, 1, 0, 1, // upvalue indices for Get/SetUpvalue steps
        ];
        st.chunk = Some(Placed::new(Chunk {
            lines: vec![0; code.len()],
            code,
            constant_map: std::collections::HashMap::with_hasher(random_state_stub()),
            constants: vec![Value::ObjFunction(inner_fn)],
        }));
        let chunk = st.chunk.as_mut().unwrap().gc();
        st.function = Some(Placed::new(ObjFunction::new(name, 1, 0, chunk, name)));
        let function = st.function.as_mut().unwrap().gc();
        st.closure = Some(Placed::new(ObjClosure::new(function, Vec::new(), Gc::dangling())));
        let closure = st.closure.as_mut().unwrap().gc();
        st.fiber = Some(Placed::new(RefCell::new(ObjFiber::new(Gc::dangling(), closure))));
        let fiber = st.fiber.as_mut().unwrap().gc();
        let mut vm = bare_vm();
        vm.fiber = Some(fiber.as_root());
        vm.unsafe_fiber = (*fiber).as_ptr();
        vm.load_frame();
        vm.push(Value::ObjClosure(closure));
        let mut i = 0;
        while i < vals.len() {
            vm.push(Value::Number(vals[i]));
            i += 1;
        }
        World { vm, fiber, chunk }
    }

    /// `Vm::read_constant` is stubbed: it consumes the two operand bytes with the real `read_short` and
    /// returns the function constant from a static instead of `active_chunk.constants[index]`. A pointer
    /// read back from a `Value` stored in an untyped heap block loses its identity in CBMC; the loop bound
    /// `function.upvalue_count` then stops being a constant and every allocation loop is explored to the
    /// unwind limit. Only the constant-pool lookup is replaced.
    static mut KANI_FUNCTION: Option<Gc<ObjFunction>> = None;
    impl Vm {
        fn read_constant_stub(&mut self) -> Value {
            let _ = self.read_short();
            Value::ObjFunction(unsafe { KANI_FUNCTION.unwrap() })
        }
    }

    fn slot(w: &World, i: usize) -> Value {
        w.fiber.borrow().stack[i]
    }

    fn list_sorted_and_unique(fiber: Gc<RefCell<ObjFiber>>) -> bool {
        // open_upvalues must be strictly descending by captured address (what capture_upvalue and
        // close_upvalues both rely on)
        let base = fiber.borrow().stack.as_ptr();
        let mut cur = fiber.borrow().open_upvalues;
        let mut prev_idx: isize = isize::MAX;
        let mut ok = true;
        let mut n = 0;
        while let Some(u) = cur {
            let b = u.borrow();
            let mut this: isize = -1;
            let mut k = 0;
            while k < 4 {
                let addr = unsafe { base.offset(k as isize) };
                if b.is_open_with_pred(|p| p == addr) {
                    this = k as isize;
                }
                k += 1;
            }
            if this < 0 || this >= prev_idx {
                ok = false;
            }
            prev_idx = this;
            cur = b.next;
            n += 1;
            if n > 3 {
                return false;
            }
        }
        ok
    }

    /// Two closures created one after the other by the real `closure_impl`, each capturing two locals of
    /// the running frame among slots 1..=3 (same or different, in any order):
    ///  * closures that captured the same local hold the very same upvalue object, different locals
    ///    different objects;
    ///  * reading through either closure gives the local's current value; a write through one is seen by
    ///    the local and by the other closure (while the frame is live);
    ///  * the fiber's open-upvalue list stays strictly ordered and duplicate-free.
    /// Which slots are captured is control (a symbolic slot makes every upvalue location a symbolic
    /// pointer: 35 M variables, out of memory), so it is one harness per choice - all 36 ordered choices
    /// of two distinct slots per closure are generated below; the values are symbolic.
    fn share_case(s: [u8; 4]) {
        let vals: [f64; 3] = kani::any();
        let mut st = store();
        let mut w = world(&mut st, &vals, [(1, s[0]), (1, s[1]), (1, s[2]), (1, s[3])]);
        let code = w.chunk.code.as_ptr();
        w.vm.ip = code;
        w.vm.closure_impl();
        let c1 = match w.vm.peek(0) {
            Value::ObjClosure(c) => c,
            _ => {
                assert!(false, "Closure pushes a closure");
                return;
            }
        };
        assert!(w.vm.ip == unsafe { code.offset(6) }, "Closure consumes its operands");
        w.vm.closure_impl();
        let c2 = match w.vm.peek(0) {
            Value::ObjClosure(c) => c,
            _ => {
                assert!(false, "Closure pushes a closure");
                return;
            }
        };
        assert!(c1 != c2, "each evaluation creates a fresh closure");
        let u1 = [c1.upvalues.borrow()[0], c1.upvalues.borrow()[1]];
        let u2 = [c2.upvalues.borrow()[0], c2.upvalues.borrow()[1]];
        kani::cover!(true, "reach");
        let mut i = 0;
        while i < 2 {
            let mut j = 0;
            while j < 2 {
                let same_local = s[i] == s[2 + j];
                assert!((u1[i] == u2[j]) == same_local, "same variable <=> same upvalue object");
                j += 1;
            }
            assert!(num(u1[i].borrow().get(), vals[s[i] as usize - 1]), "closure reads the captured local");
            assert!(num(u2[i].borrow().get(), vals[s[2 + i] as usize - 1]), "closure reads the captured local");
            i += 1;
        }
        // write through c1's first capture: the local and every closure sharing it see it
        let nv: f64 = kani::any();
        u1[0].borrow_mut().set(Value::Number(nv));
        assert!(num(slot(&w, s[0] as usize), nv), "a write through a closure reaches the local");
        let mut j = 0;
        while j < 2 {
            if s[2 + j] == s[0] {
                assert!(num(u2[j].borrow().get(), nv), "the other closure sees the write");
            } else {
                assert!(num(u2[j].borrow().get(), vals[s[2 + j] as usize - 1]), "unrelated captures are untouched");
            }
            j += 1;
        }
        // a write to the local itself is seen through every closure that captured it
        let nl: f64 = kani::any();
        w.fiber.borrow_mut().stack[s[1] as usize] = Value::Number(nl);
        assert!(num(u1[1].borrow().get(), nl), "a write to the local is seen through the closure");
        std::mem::forget(w);
    }
    macro_rules! share_cases {
        ($($name:ident: $a:expr, $b:expr, $c:expr, $d:expr;)*) => {$(
            #[kani::proof]
            #[kani::unwind(5)]
            #[kani::stub(std::collections::hash_map::RandomState::new, random_state_stub)]
            #[kani::stub(std::fmt::format, fmt_stub)]
            #[kani::stub(crate::memory::Heap::collect_if_required, crate::memory::verif_mem::collect_if_required_stub)]
            #[kani::stub(Vm::read_constant, Vm::read_constant_stub)]
            fn $name() {
                share_case([$a, $b, $c, $d]);
            }
        )*};
    }
    share_cases! {
        c06_closures_share_captured_locals_12_12: 1, 2, 1, 2;
        c06_closures_share_captured_locals_12_13: 1, 2, 1, 3;
        c06_closures_share_captured_locals_12_21: 1, 2, 2, 1;
        c06_closures_share_captured_locals_12_23: 1, 2, 2, 3;
        c06_closures_share_captured_locals_12_31: 1, 2, 3, 1;
        c06_closures_share_captured_locals_12_32: 1, 2, 3, 2;
        c06_closures_share_captured_locals_13_12: 1, 3, 1, 2;
        c06_closures_share_captured_locals_13_13: 1, 3, 1, 3;
        c06_closures_share_captured_locals_13_21: 1, 3, 2, 1;
        c06_closures_share_captured_locals_13_23: 1, 3, 2, 3;
        c06_closures_share_captured_locals_13_31: 1, 3, 3, 1;
        c06_closures_share_captured_locals_13_32: 1, 3, 3, 2;
        c06_closures_share_captured_locals_21_12: 2, 1, 1, 2;
        c06_closures_share_captured_locals_21_13: 2, 1, 1, 3;
        c06_closures_share_captured_locals_21_21: 2, 1, 2, 1;
        c06_closures_share_captured_locals_21_23: 2, 1, 2, 3;
        c06_closures_share_captured_locals_21_31: 2, 1, 3, 1;
        c06_closures_share_captured_locals_21_32: 2, 1, 3, 2;
        c06_closures_share_captured_locals_23_12: 2, 3, 1, 2;
        c06_closures_share_captured_locals_23_13: 2, 3, 1, 3;
        c06_closures_share_captured_locals_23_21: 2, 3, 2, 1;
        c06_closures_share_captured_locals_23_23: 2, 3, 2, 3;
        c06_closures_share_captured_locals_23_31: 2, 3, 3, 1;
        c06_closures_share_captured_locals_23_32: 2, 3, 3, 2;
        c06_closures_share_captured_locals_31_12: 3, 1, 1, 2;
        c06_closures_share_captured_locals_31_13: 3, 1, 1, 3;
        c06_closures_share_captured_locals_31_21: 3, 1, 2, 1;
        c06_closures_share_captured_locals_31_23: 3, 1, 2, 3;
        c06_closures_share_captured_locals_31_31: 3, 1, 3, 1;
        c06_closures_share_captured_locals_31_32: 3, 1, 3, 2;
        c06_closures_share_captured_locals_32_12: 3, 2, 1, 2;
        c06_closures_share_captured_locals_32_13: 3, 2, 1, 3;
        c06_closures_share_captured_locals_32_21: 3, 2, 2, 1;
        c06_closures_share_captured_locals_32_23: 3, 2, 2, 3;
        c06_closures_share_captured_locals_32_31: 3, 2, 3, 1;
        c06_closures_share_captured_locals_32_32: 3, 2, 3, 2;
    }

    /// Leaving the scope: `CloseUpvalue` on the top local, then `Return` closing the rest. After a
    /// variable is closed its last value is preserved, closures that shared it still share it (a write
    /// through one is seen by the other), the stack slot it lived in is no longer affected, and upvalues of
    /// locals BELOW the closed one stay open and keep tracking their slots.
    #[kani::proof]
    #[kani::unwind(5)]
    #[kani::stub(std::collections::hash_map::RandomState::new, random_state_stub)]
    #[kani::stub(std::fmt::format, fmt_stub)]
    #[kani::stub(crate::memory::Heap::collect_if_required, crate::memory::verif_mem::collect_if_required_stub)]
    #[kani::stub(Vm::read_constant, Vm::read_constant_stub)]
    fn c06_closed_variables_keep_value_and_sharing() {
        let vals: [f64; 3] = kani::any();
        // c1 captures locals (3, 1); c2 captures (1, 3) - both share both variables, opposite order
        let mut st = store();
        let mut w = world(&mut st, &vals, [(1, 3), (1, 1), (1, 1), (1, 3)]);
        let code = w.chunk.code.as_ptr();
        w.vm.ip = code;
        w.vm.closure_impl();
        let c1 = w.vm.pop().try_as_obj_closure().unwrap();
        w.vm.closure_impl();
        let c2 = w.vm.pop().try_as_obj_closure().unwrap();
        let (a1, b1) = (c1.upvalues.borrow()[0], c1.upvalues.borrow()[1]); // local 3, local 1
        let (a2, b2) = (c2.upvalues.borrow()[0], c2.upvalues.borrow()[1]); // local 1, local 3
        assert!(a1 == b2 && b1 == a2, "shared while open");
        // stack: [closure, v1, v2, v3]; close the top local (slot 3)
        w.vm.close_upvalue_impl();
        assert!(w.vm.stack_size() == 3, "CloseUpvalue pops the local");
        assert!(!a1.borrow().is_open(), "the variable of the popped slot is closed");
        assert!(b1.borrow().is_open(), "variables below stay open");
        assert!(num(a1.borrow().get(), vals[2]), "a closed variable keeps its last value");
        // the freed slot is reused by a new temporary: the closed variable must not follow it
        let t: f64 = kani::any();
        w.vm.push(Value::Number(t));
        assert!(num(a1.borrow().get(), vals[2]), "a closed variable is detached from the stack slot");
        let nv: f64 = kani::any();
        b2.borrow_mut().set(Value::Number(nv));
        assert!(num(a1.borrow().get(), nv), "closures still share the closed variable");
        assert!(num(slot(&w, 3), t), "writing a closed variable leaves the reused slot alone");
        // the lower variable is still the live local
        let nl: f64 = kani::any();
        w.fiber.borrow_mut().stack[1] = Value::Number(nl);
        assert!(num(b1.borrow().get(), nl) && num(a2.borrow().get(), nl), "open variables track their local");
        kani::cover!(true, "reach-before-return");
        // Return: closes every variable of the frame
        w.vm.pop();
        w.vm.push(Value::None);
        let r = w.vm.return_impl();
        assert!(matches!(r, Ok(Some(_))), "returning from the last frame of the main fiber ends the run");
        assert!(!b1.borrow().is_open(), "Return closes the frame's remaining variables");
        assert!(num(b1.borrow().get(), nl) && num(a2.borrow().get(), nl), "with their last values");
        assert!(w.fiber.borrow().open_upvalues.is_none(), "no open upvalue is left behind");
        let z: f64 = kani::any();
        a2.borrow_mut().set(Value::Number(z));
        assert!(num(b1.borrow().get(), z), "sharing survives the scope");
        std::mem::forget(w);
    }

    /// A closure created inside a closure captures through the enclosing closure's upvalue
    /// (is_local = 0): it gets the very same upvalue object.
    #[kani::proof]
    #[kani::unwind(5)]
    #[kani::stub(std::collections::hash_map::RandomState::new, random_state_stub)]
    #[kani::stub(std::fmt::format, fmt_stub)]
    #[kani::stub(crate::memory::Heap::collect_if_required, crate::memory::verif_mem::collect_if_required_stub)]
    #[kani::stub(Vm::read_constant, Vm::read_constant_stub)]
    fn c06_nested_capture_reuses_enclosing_upvalue() {
        let vals: [f64; 3] = kani::any();
        let k: u8 = kani::any();
        kani::assume(k < 2);
        // first closure captures locals 1 and 2; second "nested" one is created while the first is the
        // running closure and captures upvalue k and upvalue 1-k of its parent
        let mut st = store();
        let mut w = world(&mut st, &vals, [(1, 1), (1, 2), (0, k), (0, 1 - k)]);
        let code = w.chunk.code.as_ptr();
        w.vm.ip = code;
        w.vm.closure_impl();
        let c1 = w.vm.pop().try_as_obj_closure().unwrap();
        // make c1 the running closure (as if it had been called with no extra slots)
        w.fiber.borrow_mut().frames[0].closure = c1;
        w.vm.closure_impl();
        let c2 = w.vm.pop().try_as_obj_closure().unwrap();
        kani::cover!(k == 1, "reach-swapped");
        let p = [c1.upvalues.borrow()[0], c1.upvalues.borrow()[1]];
        assert!(c2.upvalues.borrow()[0] == p[k as usize], "nested capture is the parent's upvalue object");
        assert!(c2.upvalues.borrow()[1] == p[1 - k as usize], "nested capture is the parent's upvalue object");
        // Get/SetUpvalue through the running closure (c1): operand bytes at code[12..]
        w.vm.ip = unsafe { code.offset(12) };
        w.vm.get_upvalue_impl();
        assert!(num(w.vm.pop(), vals[0]), "GetUpvalue 0 reads local 1");
        w.vm.get_upvalue_impl();
        assert!(num(w.vm.pop(), vals[1]), "GetUpvalue 1 reads local 2");
        let nv: f64 = kani::any();
        w.vm.push(Value::Number(nv));
        w.vm.set_upvalue_impl();
        assert!(num(slot(&w, 1), nv), "SetUpvalue 0 writes local 1");
        assert!(num(w.vm.peek(0), nv), "SetUpvalue leaves the value on the stack");
        assert!(num(c2.upvalues.borrow()[k as usize].borrow().get(), nv), "the nested closure sees the write");
        std::mem::forget(w);
    }

    /// One step on an arbitrary well-formed open list (C09 recipe: the list nodes are typed locals, not
    /// allocator blocks): locals 3 and 1 are already captured (open list 3 -> 1). Capturing local 2 creates
    /// a fresh variable object that reads local 2 and keeps the list ordered (3 -> 2 -> 1); capturing 3 or
    /// 1 again yields the very objects that exist already (so every closure shares them); leaving the
    /// scope of local 3 (CloseUpvalue) closes exactly that variable with its last value and leaves the
    /// variables below open and tracking their slots.
    #[kani::proof]
    #[kani::unwind(5)]
    #[kani::stub(std::collections::hash_map::RandomState::new, random_state_stub)]
    #[kani::stub(std::fmt::format, fmt_stub)]
    #[kani::stub(crate::memory::Heap::collect_if_required, crate::memory::verif_mem::collect_if_required_stub)]
    fn c06_capture_and_close_step_on_open_list() {
        let vals: [f64; 3] = kani::any();
        let mut st = store();
        let mut w = world(&mut st, &vals, [(1, 1), (1, 2), (1, 1), (1, 2)]);
        let (p1, p3) = {
            let mut f = w.fiber.borrow_mut();
            (&mut f.stack[1] as *mut Value, &mut f.stack[3] as *mut Value)
        };
        let mut n3 = Placed::new(RefCell::new(ObjUpvalue::new(p3)));
        let mut n1 = Placed::new(RefCell::new(ObjUpvalue::new(p1)));
        let (u3, u1) = (n3.gc(), n1.gc());
        u3.borrow_mut().next = Some(u1);
        w.fiber.borrow_mut().open_upvalues = Some(u3);
        // capturing a variable that is already captured yields the existing object
        assert!(w.vm.capture_upvalue(3) == u3 && w.vm.capture_upvalue(1) == u1, "a variable that is already captured is shared, not duplicated");
        assert!(w.fiber.borrow().open_upvalues == Some(u3) && u3.borrow().next == Some(u1) && u1.borrow().next.is_none(), "and the open list is unchanged");
        // capture local 2: a new variable object, inserted in order
        let u2 = w.vm.capture_upvalue(2);
        kani::cover!(true, "reach");
        assert!(u2 != u3 && u2 != u1, "a variable captured for the first time gets its own object");
        assert!(w.fiber.borrow().open_upvalues == Some(u3) && u3.borrow().next == Some(u2) && u2.borrow().next == Some(u1), "the open list stays ordered by slot");
        // the scope of local 3 ends
        w.vm.close_upvalue_impl();
        assert!(w.vm.stack_size() == 3, "CloseUpvalue pops the local");
        assert!(!u3.borrow().is_open() && num(u3.borrow().get(), vals[2]), "its variable is closed with its last value");
        assert!(u1.borrow().is_open(), "variables below stay open");
        assert!(w.fiber.borrow().open_upvalues == Some(u2), "and the open list starts at the highest open variable");
        let t: f64 = kani::any();
        w.vm.push(Value::Number(t));
        assert!(num(u3.borrow().get(), vals[2]) && num(slot(&w, 3), t), "a closed variable is detached from the reused slot");
        let nl: f64 = kani::any();
        w.fiber.borrow_mut().stack[1] = Value::Number(nl);
        assert!(num(u1.borrow().get(), nl), "open variables track their local");
        std::mem::forget(n3);
        std::mem::forget(n1);
        std::mem::forget(w);
    }

    /// Twin: must FAIL.
    #[kani::proof]
    #[kani::unwind(5)]
    #[kani::stub(std::collections::hash_map::RandomState::new, random_state_stub)]
    #[kani::stub(std::fmt::format, fmt_stub)]
    #[kani::stub(crate::memory::Heap::collect_if_required, crate::memory::verif_mem::collect_if_required_stub)]
    #[kani::stub(Vm::read_constant, Vm::read_constant_stub)]
    fn c06_twin_must_fail() {
        let vals: [f64; 3] = kani::any();
        let mut st = store();
        let mut w = world(&mut st, &vals, [(1, 3), (1, 1), (1, 1), (1, 3)]);
        w.vm.ip = w.chunk.code.as_ptr();
        w.vm.closure_impl();
        assert!(false, "twin");
    }
}
