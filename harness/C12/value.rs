
// ---- verif C12: hash/equality coherence of Value (appended to value.rs) -------------------------
// Control flow (which kind each key has) is concrete; the payloads are symbolic. A symbolic
// discriminant would make CBMC explore all 21x21 arms of Value::eq, including the recursive ones.
#[cfg(kani)]
mod verif_c12 {
    use super::*;
    use crate::verif_stubs::*;
    use std::hash::Hasher;

    fn h(v: &Value) -> u64 {
        let mut hasher = PassThroughHasher::default();
        v.hash(&mut hasher);
        hasher.finish()
    }

    fn scalar(kind: usize) -> Value {
        match kind {
            0 => Value::Number(kani::any()),
            1 => Value::Boolean(kani::any()),
            _ => Value::None,
        }
    }

    fn ref_eq(a: &Value, b: &Value) -> bool {
        match (a, b) {
            (Value::Number(x), Value::Number(y)) => x == y,
            (Value::Boolean(x), Value::Boolean(y)) => x == y,
            (Value::None, Value::None) => true,
            _ => false,
        }
    }

    /// For the 9 kind pairs (concrete) and all payloads (symbolic: every f64 incl. +-0, NaN, inf):
    /// `==` is kind-wise IEEE/bool equality, and a == b  =>  hash(a) == hash(b).
    #[kani::proof]
    #[kani::unwind(4)]
    #[kani::stub(std::fmt::format, fmt_stub)]
    fn c12_scalar_eq_hash_coherent() {
        let mut ka = 0;
        while ka < 3 {
            let mut kb = 0;
            while kb < 3 {
                let a = scalar(ka);
                let b = scalar(kb);
                let eq = a == b;
                assert!(eq == ref_eq(&a, &b), "scalar equality is kind-wise");
                if eq {
                    assert!(h(&a) == h(&b), "equal scalar keys hash alike");
                }
                kb += 1;
            }
            ka += 1;
        }
        kani::cover!(true, "reach-end");
    }

    /// The number hash itself: equal numbers (in particular 0.0 / -0.0) hash alike, and the hash is a
    /// function of the value only.
    #[kani::proof]
    fn c12_hash_number_coherent() {
        let a: f64 = kani::any();
        let b: f64 = kani::any();
        kani::assume(a == b);
        kani::cover!(a.to_bits() != b.to_bits(), "reach-distinct-bits");
        assert!(utils::hash_number(a) == utils::hash_number(b), "equal numbers hash alike");
    }

    /// has_hash(v) <=> Value::hash(v) does not reach its panic arm, for scalars; scalars are hashable.
    #[kani::proof]
    #[kani::unwind(4)]
    #[kani::stub(std::fmt::format, fmt_stub)]
    fn c12_scalars_hashable() {
        let mut k = 0;
        while k < 3 {
            let v = scalar(k);
            assert!(v.has_hash(), "scalars are hashable");
            let _ = h(&v);
            k += 1;
        }
        kani::cover!(true, "reach-end");
    }

    /// Twin: must FAIL (vacuity guard for the group).
    #[kani::proof]
    #[kani::unwind(4)]
    #[kani::stub(std::fmt::format, fmt_stub)]
    fn c12_twin_must_fail() {
        let a = scalar(0);
        let b = scalar(0);
        kani::assume(a == b);
        let _ = h(&a) == h(&b);
        assert!(false, "twin");
    }
}
