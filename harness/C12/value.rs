
// ---- verif C12: hash/equality coherence of Value (appended to value.rs) -------------------------
// Control flow (which kind each key has) is concrete; the payloads are symbolic. A symbolic
// discriminant would make CBMC explore all 21x21 arms of Value::eq, including the recursive ones.
#[cfg(kani)]
mod verif_c12 {
    use super::*;
    use crate::verif_stubs::*;
    use std::hash::Hasher;

    fn h(v: &Value) -> u64 {
        let mut hasher = PassThroughHasher::default();
        v.hash(&mut hasher);
        hasher.finish()
    }

    fn scalar(kind: usize) -> Value {
        match kind {
            0 => Value::Number(kani::any()),
            1 => Value::Boolean(kani::any()),
            _ => Value::None,
        }
    }

    fn ref_eq(a: &Value, b: &Value) -> bool {
        match (a, b) {
            (Value::Number(x), Value::Number(y)) => x == y,
            (Value::Boolean(x), Value::Boolean(y)) => x == y,
            (Value::None, Value::None) => true,
            _ => false,
        }
    }

    /// For the 9 kind pairs (concrete) and all payloads (symbolic: every f64 incl. +-0, NaN, inf):
    /// `==` is kind-wise IEEE/bool equality, and a == b  =>  hash(a) == hash(b).
    #[kani::proof]
    #[kani::unwind(4)]
    #[kani::stub(std::fmt::format, fmt_stub)]
    fn c12_scalar_eq_hash_coherent() {
        let mut ka = 0;
        while ka < 3 {
            let mut kb = 0;
            while kb < 3 {
                let a = scalar(ka);
                let b = scalar(kb);
                let eq = a == b;
                assert!(eq == ref_eq(&a, &b), "scalar equality is kind-wise");
                if eq {
                    assert!(h(&a) == h(&b), "equal scalar keys hash alike");
                }
                kb += 1;
            }
            ka += 1;
        }
        kani::cover!(true, "reach-end");
    }

    /// The number hash itself: equal numbers (in particular 0.0 / -0.0) hash alike, and the hash is a
    /// function of the value only.
    #[kani::proof]
    fn c12_hash_number_coherent() {
        let a: f64 = kani::any();
        let b: f64 = kani::any();
        kani::assume(a == b);
        kani::cover!(a.to_bits() != b.to_bits(), "reach-distinct-bits");
        assert!(utils::hash_number(a) == utils::hash_number(b), "equal numbers hash alike");
    }

    /// has_hash(v) <=> Value::hash(v) does not reach its panic arm, for scalars; scalars are hashable.
    #[kani::proof]
    #[kani::unwind(4)]
    #[kani::stub(std::fmt::format, fmt_stub)]
    fn c12_scalars_hashable() {
        let mut k = 0;
        while k < 3 {
            let v = scalar(k);
            assert!(v.has_hash(), "scalars are hashable");
            let _ = h(&v);
            k += 1;
        }
        kani::cover!(true, "reach-end");
    }

    fn scalar2(kind: usize) -> Value {
        match kind {
            0 => Value::Number(kani::any()),
            _ => Value::Boolean(kani::any()),
        }
    }

    /// Tuples built separately from scalars (kinds concrete, payloads symbolic): `==` is element-wise and
    /// equal tuples hash alike through the real Value::hash -> Gc<ObjTuple>::hash -> element hashes
    /// (so (0, x) and (-0, x) select the same entry); a tuple never equals a scalar.
    fn tuple_pair_case(k0: usize, k1: usize) {
        use crate::memory::verif_mem::Placed;
        use crate::object::ObjTuple;
        let (a0, a1, b0, b1) = (scalar2(k0), scalar2(k1), scalar2(k0), scalar2(k1));
        let mut ta = Placed::new(ObjTuple::new(Gc::dangling(), vec![a0, a1]));
        let mut tb = Placed::new(ObjTuple::new(Gc::dangling(), vec![b0, b1]));
        let (va, vb) = (Value::ObjTuple(ta.gc()), Value::ObjTuple(tb.gc()));
        let eq = va == vb;
        assert!(eq == (ref_eq(&a0, &b0) && ref_eq(&a1, &b1)), "tuple equality is element-wise");
        assert!(va.has_hash() && vb.has_hash(), "tuples of scalars are hashable");
        kani::cover!(eq, "reach-equal");
        if eq {
            assert!(h(&va) == h(&vb), "equal tuples built separately hash alike");
        }
        assert!(!(va == a0) && !(a0 == va), "a tuple never equals a scalar");
        std::mem::forget(ta);
        std::mem::forget(tb);
    }

    #[kani::proof]
    #[kani::unwind(4)]
    #[kani::stub(std::fmt::format, fmt_stub)]
    fn c12_tuple_eq_hash_coherent_num_num() {
        tuple_pair_case(0, 0);
    }

    #[kani::proof]
    #[kani::unwind(4)]
    #[kani::stub(std::fmt::format, fmt_stub)]
    fn c12_tuple_eq_hash_coherent_num_bool() {
        tuple_pair_case(0, 1);
    }

    /// has_hash is a pure predicate: asking twice gives the same answer (the cycle guard it uses is
    /// released on every path), for a tuple holding an unhashable value (first or last element) and for a
    /// hashable one (a tuple NESTING an unhashable tuple does not finish in 300 s: the recursion runs
    /// through a heap vector whose element kinds CBMC no longer knows - outside the claim); Value::hash does not reach its panic arm when
    /// has_hash says yes. One shape per harness (concrete control, symbolic payload).
    #[kani::proof]
    #[kani::unwind(4)]
    #[kani::stub(std::fmt::format, fmt_stub)]
    fn c12_has_hash_is_pure_unhashable_first() {
        has_hash_flat_case(true);
        kani::cover!(true, "reach-end");
    }

    #[kani::proof]
    #[kani::unwind(4)]
    #[kani::stub(std::fmt::format, fmt_stub)]
    fn c12_has_hash_is_pure_unhashable_last() {
        has_hash_flat_case(false);
        kani::cover!(true, "reach-end");
    }

    fn has_hash_flat_case(first: bool) {
        use crate::memory::verif_mem::Placed;
        use crate::object::{ObjTuple, ObjVec};
        use std::cell::RefCell;
        let x: f64 = kani::any();
        let mut vec = Placed::new(RefCell::new(ObjVec::new(Gc::dangling())));
        let unhashable = Value::ObjVec(vec.gc());
        assert!(!unhashable.has_hash(), "a vector is not hashable");
        let elems = if first { vec![unhashable, Value::Number(x)] } else { vec![Value::Number(x), unhashable] };
        let mut bad = Placed::new(ObjTuple::new(Gc::dangling(), elems));
        let vbad = Value::ObjTuple(bad.gc());
        assert!(!vbad.has_hash(), "a tuple holding a vector is unhashable");
        assert!(!vbad.has_hash(), "... and still unhashable when asked again");
        assert!(!vbad.has_hash(), "... and a third time");
        std::mem::forget(vec);
        std::mem::forget(bad);
    }

    #[kani::proof]
    #[kani::unwind(4)]
    #[kani::stub(std::fmt::format, fmt_stub)]
    fn c12_has_hash_is_pure_hashable() {
        use crate::memory::verif_mem::Placed;
        use crate::object::ObjTuple;
        let x: f64 = kani::any();
        let mut good = Placed::new(ObjTuple::new(Gc::dangling(), vec![Value::Number(x), Value::None]));
        let vgood = Value::ObjTuple(good.gc());
        assert!(vgood.has_hash() && vgood.has_hash(), "a tuple of hashables is hashable, whenever asked");
        let _ = h(&vgood);
        kani::cover!(true, "reach-end");
        std::mem::forget(good);
    }

    /// Twin: must FAIL (vacuity guard for the group).
    #[kani::proof]
    #[kani::unwind(4)]
    #[kani::stub(std::fmt::format, fmt_stub)]
    fn c12_twin_must_fail() {
        let a = scalar(0);
        let b = scalar(0);
        kani::assume(a == b);
        let _ = h(&a) == h(&b);
        assert!(false, "twin");
    }
}
