
// ---- verif C12: the HashMap natives on a bare Vm (appended to core.rs) -----------------------------
// insert / get / has_key / remove / len / clear driven the way Invoke drives them
// (`call_native(native, argc)` with [map, args..] on the stack), against an abstract map keyed by `==`.
// Run with std's HashMap replaced by the association-list reference model (DESIGN.md 2.10): a key
// denotes the entry whose key has the same hash AND is `==`, so the natives' stack plumbing, key
// validation and the coherence of Value::hash / Value::eq are all exercised through one observable.
#[cfg(kani)]
mod verif_c12_natives {
    use super::*;
    use crate::memory::verif_mem::Placed;
    use crate::object::{ObjHashMap, ObjVec};
    use crate::verif_stubs::*;
    use crate::vm::verif_vm::*;
    use std::cell::RefCell;
    pub(crate) use std::cmp::PartialEq as PEq;

    // Cuts by restriction: the keys of these harnesses are numbers, booleans, nil (and one vector that is
    // rejected before it is hashed). A Value read back from the value stack has an unknown discriminant to
    // CBMC, so without the cuts every lookup also encodes the recursive tuple arms of Value::hash and
    // Value::eq to the unwinding limit. Reaching a cut is a "verif:" model failure (inconclusive), never
    // a pass. Tuple keys have their own harnesses in value.rs.
    fn tuple_eq_not_modelled(_a: &crate::object::ObjTuple, _b: &crate::object::ObjTuple) -> bool {
        panic!("verif: tuple == not modelled in the native-call harnesses")
    }
    fn vec_eq_not_modelled(_a: &ObjVec, _b: &ObjVec) -> bool {
        panic!("verif: vector == not modelled in the native-call harnesses")
    }
    fn map_eq_not_modelled(_a: &ObjHashMap, _b: &ObjHashMap) -> bool {
        panic!("verif: map == not modelled in the native-call harnesses")
    }

    fn num(v: Value, want: f64) -> bool {
        matches!(v, Value::Number(x) if x.to_bits() == want.to_bits())
    }
    fn nil(v: Value) -> bool {
        matches!(v, Value::None)
    }

    struct World {
        vm: Vm,
        f: FiberParts,
        map: Gc<RefCell<ObjHashMap>>,
    }
    fn world(st: &mut FiberStore, ms: &mut Option<Placed<RefCell<ObjHashMap>>>) -> World {
        let mut vm = bare_vm();
        let f = st.init(vec![0u8; 8], 1);
        activate(&mut vm, &f);
        f.fiber.borrow_mut().stack.push(Value::ObjClosure(f.closure));
        *ms = Some(Placed::new(RefCell::new(ObjHashMap::new(Gc::dangling()))));
        let map = ms.as_mut().unwrap().gc();
        World { vm, f, map }
    }
    /// `map.<native>(args..)` as the Invoke opcode performs it; returns the value left in the call's slot.
    fn call(w: &mut World, native: NativeFn, args: &[Value]) -> Result<Value, ()> {
        let mut nat = Placed::new(ObjNative::new(Gc::dangling(), native, false));
        let depth = w.f.fiber.borrow().stack.len();
        w.f.fiber.borrow_mut().stack.push(Value::ObjHashMap(w.map));
        let mut i = 0;
        while i < args.len() {
            w.f.fiber.borrow_mut().stack.push(args[i]);
            i += 1;
        }
        let r = vm_call_native(&mut w.vm, nat.gc(), args.len());
        let out = match r {
            Ok(()) => {
                assert!(w.f.fiber.borrow().stack.len() == depth + 1, "a native call leaves exactly its result in the receiver's slot");
                let v = *w.f.fiber.borrow().stack.peek(0);
                w.f.fiber.borrow_mut().stack.pop();
                Ok(v)
            }
            Err(e) => {
                std::mem::forget(e);
                w.f.fiber.borrow_mut().stack.truncate(depth);
                Err(())
            }
        };
        std::mem::forget(nat);
        out
    }
    fn len(w: &World) -> usize {
        w.map.borrow().elements.len()
    }

    macro_rules! c12n_proof {
        ($name:ident, $body:block) => {
            #[kani::proof]
            #[kani::unwind(5)]
            #[kani::stub(std::fmt::format, fmt_stub)]
            #[kani::stub(crate::vm::Vm::new_root_obj_err_from_error, crate::vm::verif_vm::err_instance_stub)]
            #[kani::stub(crate::vm::Vm::new_error_from_value, crate::vm::verif_vm::error_from_value_stub)]
            #[kani::stub(<crate::hash::BuildPassThroughHasher as crate::hash::verif_hash::BuildHasherT>::build_hasher, crate::hash::verif_hash::build_hasher_direct)]
            #[kani::stub(<crate::hash::PassThroughHasher as crate::hash::verif_hash::DefaultT>::default, crate::hash::verif_hash::tuple_hasher_not_modelled)]
            #[kani::stub(<crate::object::ObjTuple as crate::core::verif_c12_natives::PEq>::eq, tuple_eq_not_modelled)]
            #[kani::stub(<crate::object::ObjVec as crate::core::verif_c12_natives::PEq>::eq, vec_eq_not_modelled)]
            #[kani::stub(<crate::object::ObjHashMap as crate::core::verif_c12_natives::PEq>::eq, map_eq_not_modelled)]
            fn $name() $body
        };
    }

    // Two number keys (all f64: +-0, NaN, inf): the map behaves as the abstract map keyed by `==`.
    c12n_proof!(c12_map_natives_match_abstract_map_number_keys, {
        let (k1, k2, v1, v2): (f64, f64, f64, f64) = kani::any();
        let same = k1 == k2; // false for NaN
        let mut st = FiberStore::empty();
        let mut ms = None;
        let mut w = world(&mut st, &mut ms);
        let r = call(&mut w, hash_map_len, &[]);
        assert!(matches!(r, Ok(v) if num(v, 0.0)), "a new map is empty");
        let r = call(&mut w, hash_map_insert, &[Value::Number(k1), Value::Number(v1)]);
        assert!(matches!(r, Ok(v) if nil(v)) && len(&w) == 1, "inserting a new key returns nil and adds one entry");
        let r = call(&mut w, hash_map_insert, &[Value::Number(k2), Value::Number(v2)]);
        kani::cover!(same && k1.to_bits() != k2.to_bits(), "reach-equal-keys-with-different-bits");
        kani::cover!(k1 != k1, "reach-nan-key");
        if same {
            assert!(matches!(r, Ok(v) if num(v, v1)) && len(&w) == 1, "a key that is == an existing key denotes the same entry: old value returned, no new entry");
        } else {
            assert!(matches!(r, Ok(v) if nil(v)) && len(&w) == 2, "a key that is not == any existing key gets its own entry");
        }
        let r = call(&mut w, hash_map_get, &[Value::Number(k1)]);
        if same {
            assert!(matches!(r, Ok(v) if num(v, v2)), "get through the first key sees the value stored through the second");
        } else if k1 == k1 {
            assert!(matches!(r, Ok(v) if num(v, v1)), "get returns the value stored under that key");
        } else {
            assert!(matches!(r, Ok(v) if nil(v)), "NaN is not == itself: it never finds an entry");
        }
        let r = call(&mut w, hash_map_has_key, &[Value::Number(k2)]);
        assert!(matches!(r, Ok(Value::Boolean(b)) if b == (k2 == k2)), "has_key agrees with ==");
        let r = call(&mut w, hash_map_len, &[]);
        assert!(matches!(r, Ok(v) if num(v, if same { 1.0 } else { 2.0 })), "len counts the entries");
        // remove through k2
        let before = len(&w);
        let r = call(&mut w, hash_map_remove, &[Value::Number(k2)]);
        if k2 == k2 {
            assert!(matches!(r, Ok(v) if num(v, v2)) && len(&w) == before - 1, "remove returns the value and drops exactly that entry");
            let r = call(&mut w, hash_map_has_key, &[Value::Number(k2)]);
            assert!(matches!(r, Ok(Value::Boolean(false))), "a removed key is gone");
            if !same && k1 == k1 {
                let r = call(&mut w, hash_map_get, &[Value::Number(k1)]);
                assert!(matches!(r, Ok(v) if num(v, v1)), "other entries are untouched by remove");
            }
        } else {
            assert!(matches!(r, Ok(v) if nil(v)) && len(&w) == before, "removing a key that denotes no entry changes nothing");
        }
        let r = call(&mut w, hash_map_clear, &[]);
        assert!(r.is_ok() && len(&w) == 0, "clear empties the map");
        std::mem::forget(w);
    });

    // Keys of different kinds never denote the same entry (true vs 1, nil vs 0/2, false vs 0).
    c12n_proof!(c12_map_natives_keys_of_different_kinds_are_distinct, {
        let (x, v): (f64, f64) = kani::any();
        let b: bool = kani::any();
        let mut st = FiberStore::empty();
        let mut ms = None;
        let mut w = world(&mut st, &mut ms);
        let r = call(&mut w, hash_map_insert, &[Value::Number(x), Value::Number(v)]);
        assert!(r.is_ok());
        let r = call(&mut w, hash_map_get, &[Value::Boolean(b)]);
        kani::cover!(x == 1.0 && b, "reach-same-hash-different-kind");
        assert!(matches!(r, Ok(v) if nil(v)), "a boolean key never selects a number's entry");
        let r = call(&mut w, hash_map_has_key, &[Value::None]);
        assert!(matches!(r, Ok(Value::Boolean(false))), "nil never selects a number's entry");
        let r = call(&mut w, hash_map_insert, &[Value::Boolean(b), Value::None]);
        assert!(matches!(r, Ok(v) if nil(v)) && len(&w) == 2, "and gets an entry of its own");
        std::mem::forget(w);
    });

    // Unhashable keys are rejected and leave the map unchanged; wrong argument counts are errors.
    c12n_proof!(c12_map_natives_reject_unhashable_keys, {
        let (k, v): (f64, f64) = kani::any();
        let mut st = FiberStore::empty();
        let mut ms = None;
        let mut w = world(&mut st, &mut ms);
        let mut vec = Placed::new(RefCell::new(ObjVec::new(Gc::dangling())));
        let bad = Value::ObjVec(vec.gc());
        let r = call(&mut w, hash_map_insert, &[Value::Number(k), Value::Number(v)]);
        assert!(r.is_ok() && len(&w) == 1);
        let r = call(&mut w, hash_map_insert, &[bad, Value::Number(v)]);
        kani::cover!(true, "reach");
        assert!(r.is_err() && len(&w) == 1, "insert with an unhashable key is an error and leaves the map unchanged");
        assert!(call(&mut w, hash_map_get, &[bad]).is_err(), "get with an unhashable key is an error");
        assert!(call(&mut w, hash_map_has_key, &[bad]).is_err(), "has_key with an unhashable key is an error");
        assert!(call(&mut w, hash_map_remove, &[bad]).is_err() && len(&w) == 1, "remove with an unhashable key is an error and removes nothing");
        assert!(call(&mut w, hash_map_insert, &[Value::Number(k)]).is_err() && len(&w) == 1, "insert with one argument is an error");
        assert!(call(&mut w, hash_map_len, &[Value::Number(k)]).is_err(), "len with an argument is an error");
        if k == k {
            let r = call(&mut w, hash_map_get, &[Value::Number(k)]);
            assert!(matches!(r, Ok(x) if num(x, v)), "the entry is still there");
        }
        std::mem::forget(vec);
        std::mem::forget(w);
    });

    /// Twin: must FAIL.
    c12n_proof!(c12_map_natives_twin_must_fail, {
        let (k, v): (f64, f64) = kani::any();
        let mut st = FiberStore::empty();
        let mut ms = None;
        let mut w = world(&mut st, &mut ms);
        let _ = call(&mut w, hash_map_insert, &[Value::Number(k), Value::Number(v)]);
        assert!(false, "twin");
    });
}
