
// ---- verif C04: encoding limits of the bytecode emitter (appended to compiler.rs) ----------------
// One obligation per narrowing site: for every value of the wide quantity, either an error is
// recorded or the bytes written decode to that quantity.
#[cfg(kani)]
mod verif_c04 {
    use super::*;
    use crate::verif_stubs::*;
    use crate::vm::verif_vm::bare_vm_with_strings;

    /// Compiler::patch_jump: code length symbolic (2..=70000), patch position symbolic.
    /// Ok  => the two operand bytes decode to the jump distance (and the distance fits in 16 bits);
    /// Err => the distance does not fit.
    #[kani::proof]
    #[kani::unwind(3)]
    #[kani::stub(std::collections::hash_map::RandomState::new, random_state_stub)]
    fn c04_patch_jump_encodes_or_rejects() {
        let mut c = Compiler::new(FunctionKind::Function, Gc::dangling(), Gc::dangling());
        let len: usize = kani::any();
        kani::assume(len >= 2 && len <= 70000);
        c.chunk.code = vec![0u8; len];
        let offset: usize = kani::any();
        kani::assume(offset <= len - 2);
        let r = c.patch_jump(offset);
        let jump = len - offset - 2;
        kani::cover!(r.is_ok() && jump == 65535, "reach-largest-encodable");
        kani::cover!(r.is_err(), "reach-rejected");
        match r {
            Ok(()) => {
                let enc = u16::from_ne_bytes([c.chunk.code[offset], c.chunk.code[offset + 1]]) as usize;
                assert!(enc == jump, "accepted jump decodes to its distance");
            }
            Err(_) => assert!(jump > u16::MAX as usize, "only unencodable jumps are rejected"),
        }
        std::mem::forget(c);
    }

    fn parser_with_code<'a>(vm: &'a mut Vm, scanner: &'a mut Scanner, len: usize) -> Parser<'a> {
        let mut parser = Parser::new(vm, scanner, None);
        // spare capacity: a push must not reallocate (Kani's realloc model copies the 66000-byte
        // buffer element-wise and the query no longer finishes)
        let mut code = vec![0u8; len + 16];
        let mut lines = vec![0i32; len + 16];
        unsafe {
            code.set_len(len);
            lines.set_len(len);
        }
        parser.chunk().code = code;
        parser.chunk().lines = lines;
        parser
    }

    /// Parser::emit_loop: code buffer of the concrete length 66000, loop start symbolic in 0..=66000
    /// (every backward distance 3..=66003): error recorded, or the operand decodes to the distance the
    /// VM will jump back by.
    #[kani::proof]
    #[kani::unwind(8)]
    #[kani::stub(std::collections::hash_map::RandomState::new, random_state_stub)]
    #[kani::stub(std::fmt::format, fmt_stub)]
    #[kani::stub(std::fmt::write, fmt_write_stub)]
    fn c04_emit_loop_encodes_or_rejects() {
        let mut vm = bare_vm_with_strings();
        let mut scanner = Scanner::from_source(String::new());
        let len: usize = 66000;
        let mut parser = parser_with_code(&mut vm, &mut scanner, len);
        let start: usize = kani::any();
        kani::assume(start <= len);
        parser.emit_loop(start);
        let had_error = !parser.errors.borrow().is_empty();
        let n = parser.chunk().code.len();
        assert!(n == len + 3, "Loop instruction is three bytes");
        let enc = u16::from_ne_bytes([parser.chunk().code[n - 2], parser.chunk().code[n - 1]]) as usize;
        let dist = n - start; // the VM subtracts the operand after having read it
        kani::cover!(!had_error && dist == 65535, "reach-largest-encodable");
        kani::cover!(had_error, "reach-rejected");
        assert!(had_error || enc == dist, "accepted loop decodes to its distance");
        assert!(!had_error || dist > u16::MAX as usize, "only unencodable loops are rejected");
        std::mem::forget(parser);
        std::mem::forget(vm);
    }

    /// Parser::patch_offset_at (try/catch/finally block sizes): same obligation.
    #[kani::proof]
    #[kani::unwind(8)]
    #[kani::stub(std::collections::hash_map::RandomState::new, random_state_stub)]
    #[kani::stub(std::fmt::format, fmt_stub)]
    #[kani::stub(std::fmt::write, fmt_write_stub)]
    fn c04_patch_offset_encodes_or_rejects() {
        let mut vm = bare_vm_with_strings();
        let mut scanner = Scanner::from_source(String::new());
        let len: usize = 66000;
        let mut parser = parser_with_code(&mut vm, &mut scanner, len);
        let offset: usize = kani::any();
        kani::assume(offset <= len);
        let pos: usize = kani::any();
        kani::assume(pos + 1 < len);
        parser.patch_offset_at(pos, offset);
        let had_error = !parser.errors.borrow().is_empty();
        let enc = u16::from_ne_bytes([parser.chunk().code[pos], parser.chunk().code[pos + 1]]) as usize;
        let dist = len - offset;
        kani::cover!(!had_error && dist == 65535, "reach-largest-encodable");
        kani::cover!(had_error, "reach-rejected");
        assert!(had_error || enc == dist, "accepted block size decodes to its value");
        assert!(!had_error || dist > u16::MAX as usize, "only unencodable sizes are rejected");
        std::mem::forget(parser);
        std::mem::forget(vm);
    }

    /// Compiler::add_upvalue with the table pre-filled to N distinct captures (N = 255, 256) and a
    /// symbolic (index, is_local): existing capture => its own index (dedup); new capture => appended while
    /// fewer than 256, rejected at 256; a returned index always round-trips through u8.
    fn add_upvalue_case(n: usize) {
        let mut c = Compiler::new(FunctionKind::Function, Gc::dangling(), Gc::dangling());
        let mut i = 0;
        while i < n {
            // N distinct (index,is_local) pairs: (0..=255,false)
            c.upvalues.push(Upvalue { index: i as u8, is_local: false });
            c.function.upvalue_count += 1;
            i += 1;
        }
        let index: u8 = kani::any();
        let is_local: bool = kani::any();
        let existing = !is_local && (index as usize) < n;
        let r = c.add_upvalue(index, is_local);
        match r {
            Ok(k) => {
                let k = k as usize;
                assert!(k < c.upvalues.len(), "returned capture index exists");
                assert!(c.upvalues[k].index == index && c.upvalues[k].is_local == is_local, "returned index names the requested capture");
                assert!(c.upvalues.len() <= 256, "at most 256 captures");
                assert!(c.function.upvalue_count == c.upvalues.len(), "count follows the table");
                if existing {
                    assert!(k == index as usize && c.upvalues.len() == n, "an existing capture is reused");
                } else {
                    assert!(k == n && c.upvalues.len() == n + 1, "a new capture is appended");
                }
            }
            Err(_) => {
                assert!(!existing && n == 256, "rejected only when the table is full and the capture is new");
                assert!(c.upvalues.len() == n, "rejection leaves the table unchanged");
            }
        }
        std::mem::forget(c);
    }

    #[kani::proof]
    #[kani::unwind(259)]
    #[kani::stub(std::collections::hash_map::RandomState::new, random_state_stub)]
    fn c04_add_upvalue_limit() {
        add_upvalue_case(255);
        add_upvalue_case(256);
        kani::cover!(true, "reach-end");
    }

    /// Twin: must FAIL.
    #[kani::proof]
    #[kani::unwind(3)]
    #[kani::stub(std::collections::hash_map::RandomState::new, random_state_stub)]
    fn c04_twin_must_fail() {
        let mut c = Compiler::new(FunctionKind::Function, Gc::dangling(), Gc::dangling());
        let len: usize = kani::any();
        kani::assume(len >= 2 && len <= 70000);
        c.chunk.code = vec![0u8; len];
        let _ = c.patch_jump(0);
        assert!(false, "twin");
    }
}
