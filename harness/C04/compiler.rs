
// ---- verif C04: encoding limits of the bytecode emitter (appended to compiler.rs) ----------------
// One obligation per narrowing site: for every value of the wide quantity, either an error is
// recorded or the bytes written decode to that quantity.
#[cfg(kani)]
mod verif_c04 {
    use super::*;
    use crate::verif_stubs::*;
    use crate::memory::verif_mem::Placed;
    use crate::vm::verif_vm::bare_vm;

    /// Compiler::patch_jump: code length symbolic (2..=70000), patch position symbolic.
    /// Ok  => the two operand bytes decode to the jump distance (and the distance fits in 16 bits);
    /// Err => the distance does not fit.
    #[kani::proof]
    #[kani::unwind(3)]
    #[kani::stub(std::collections::hash_map::RandomState::new, random_state_stub)]
    fn c04_patch_jump_encodes_or_rejects() {
        let mut c = Compiler::new(FunctionKind::Function, Gc::dangling(), Gc::dangling());
        let len: usize = kani::any();
        kani::assume(len >= 2 && len <= 70000);
        c.chunk.code = vec![0u8; len];
        let offset: usize = kani::any();
        kani::assume(offset <= len - 2);
        let r = c.patch_jump(offset);
        let jump = len - offset - 2;
        kani::cover!(r.is_ok() && jump == 65535, "reach-largest-encodable");
        kani::cover!(r.is_err(), "reach-rejected");
        match r {
            Ok(()) => {
                let enc = u16::from_ne_bytes([c.chunk.code[offset], c.chunk.code[offset + 1]]) as usize;
                assert!(enc == jump, "accepted jump decodes to its distance");
            }
            Err(_) => assert!(jump > u16::MAX as usize, "only unencodable jumps are rejected"),
        }
        std::mem::forget(c);
    }

    /// `Parser::chunk` is stubbed in the Parser-level harnesses: it returns the chunk the harness keeps in a
    /// typed local instead of `compilers.last_mut().unwrap().chunk`, which lives inside a heap buffer.
    /// A pointer read back from an untyped heap block loses its identity in CBMC, and every write through
    /// it becomes a symbolic-offset update of the 66000-byte code array (out of memory at 30 GB); through
    /// the typed local the same writes are constant-index. Only the accessor is replaced, the functions
    /// under test (emit_loop, patch_offset_at, make_constant, emit_byte, Chunk::write) are the real ones.
    static mut KANI_CHUNK: *mut Chunk = std::ptr::null_mut();
    impl<'a> Parser<'a> {
        fn chunk_stub(&mut self) -> &mut Chunk {
            unsafe { &mut *KANI_CHUNK }
        }
    }
    fn chunk_with_code(len: usize) -> Chunk {
        // spare capacity: a push must not reallocate; contents are never read except the bytes written
        let mut code: Vec<u8> = Vec::with_capacity(len + 16);
        unsafe {
            code.set_len(len);
        }
        Chunk {
            code,
            lines: Vec::new(),
            constant_map: std::collections::HashMap::with_hasher(random_state_stub()),
            constants: Vec::new(),
        }
    }

    /// A Parser assembled field by field (Parser::new interns two strings through the collector and the
    /// intern table, neither of which the functions under test touch) whose current chunk has `len`
    /// bytes of code.
    fn bare_parser<'a>(vm: &'a mut Vm, scanner: &'a mut Scanner, module_path: Gc<ObjString>) -> Parser<'a> {
        let mut parser = Parser {
            current: Token::new(),
            previous: Token::new(),
            panic_mode: Cell::new(false),
            single_target_mode: false,
            scanner,
            compilers: Vec::new(),
            class_compilers: Vec::new(),
            errors: RefCell::new(Vec::new()),
            compiled_functions: Vec::new(),
            module_path,
            attributes: HashMap::new(),
            attribute_opener: None,
            vm,
        };
        parser.new_compiler(FunctionKind::Script, module_path, module_path);
        parser
    }

    /// Parser::emit_loop: code buffer of the concrete length 66000, loop start symbolic in 0..=66000
    /// (every backward distance 3..=66003): error recorded, or the operand decodes to the distance the
    /// VM will jump back by.
    #[kani::proof]
    #[kani::unwind(8)]
    #[kani::stub(std::collections::hash_map::RandomState::new, random_state_stub)]
    #[kani::stub(std::fmt::format, fmt_stub)]
    #[kani::stub(std::fmt::write, fmt_write_stub)]
    #[kani::stub(Parser::chunk, Parser::chunk_stub)]
    fn c04_emit_loop_encodes_or_rejects() {
        let mut vm = bare_vm();
        let mut scanner = Scanner::from_source(String::new());
        let mut path = Placed::new(ObjString::new(Gc::dangling(), "m", 1));
        let len: usize = kani::any();
        kani::assume(len <= 70000);
        let mut chunk = chunk_with_code(len);
        unsafe { KANI_CHUNK = &mut chunk as *mut Chunk; }
        let mut parser = bare_parser(&mut vm, &mut scanner, path.gc());
        let start: usize = kani::any();
        kani::assume(start <= len);
        parser.emit_loop(start);
        let had_error = !parser.errors.borrow().is_empty();
        let n = parser.chunk().code.len();
        assert!(n == len + 3, "Loop instruction is three bytes");
        let enc = u16::from_ne_bytes([parser.chunk().code[n - 2], parser.chunk().code[n - 1]]) as usize;
        let dist = n - start; // the VM subtracts the operand after having read it
        kani::cover!(!had_error && dist == 65535, "reach-largest-encodable");
        kani::cover!(had_error, "reach-rejected");
        assert!(had_error || enc == dist, "accepted loop decodes to its distance");
        assert!(!had_error || dist > u16::MAX as usize, "only unencodable loops are rejected");
        std::mem::forget(parser);
        std::mem::forget(vm);
        std::mem::forget(chunk);
    }

    /// Parser::patch_offset_at (try/catch/finally block sizes): same obligation.
    #[kani::proof]
    #[kani::unwind(8)]
    #[kani::stub(std::collections::hash_map::RandomState::new, random_state_stub)]
    #[kani::stub(std::fmt::format, fmt_stub)]
    #[kani::stub(std::fmt::write, fmt_write_stub)]
    #[kani::stub(Parser::chunk, Parser::chunk_stub)]
    fn c04_patch_offset_encodes_or_rejects() {
        let mut vm = bare_vm();
        let mut scanner = Scanner::from_source(String::new());
        let mut path = Placed::new(ObjString::new(Gc::dangling(), "m", 1));
        let len: usize = kani::any();
        kani::assume(len >= 2 && len <= 70000);
        let mut chunk = chunk_with_code(len);
        unsafe { KANI_CHUNK = &mut chunk as *mut Chunk; }
        let mut parser = bare_parser(&mut vm, &mut scanner, path.gc());
        let offset: usize = kani::any();
        kani::assume(offset <= len);
        let pos: usize = kani::any();
        kani::assume(pos < len - 1);
        parser.patch_offset_at(pos, offset);
        let had_error = !parser.errors.borrow().is_empty();
        let enc = u16::from_ne_bytes([parser.chunk().code[pos], parser.chunk().code[pos + 1]]) as usize;
        let dist = len - offset;
        kani::cover!(!had_error && dist == 65535, "reach-largest-encodable");
        kani::cover!(had_error, "reach-rejected");
        assert!(had_error || enc == dist, "accepted block size decodes to its value");
        assert!(!had_error || dist > u16::MAX as usize, "only unencodable sizes are rejected");
        std::mem::forget(parser);
        std::mem::forget(vm);
        std::mem::forget(chunk);
    }

    /// Parser::make_constant with the constant pool pre-filled to N entries (N = 65535, 65536): a new
    /// constant gets index N while N fits in the 16-bit operand, otherwise an error is recorded (and the
    /// index is not silently truncated to N mod 65536 without one).
    fn make_constant_case(n: usize) {
        let mut vm = bare_vm();
        let mut scanner = Scanner::from_source(String::new());
        let mut path = Placed::new(ObjString::new(Gc::dangling(), "m", 1));
        let mut chunk = chunk_with_code(0);
        let mut constants: Vec<Value> = Vec::with_capacity(n + 4);
        unsafe {
            constants.set_len(n);
        }
        chunk.constants = constants;
        unsafe { KANI_CHUNK = &mut chunk as *mut Chunk; }
        let mut parser = bare_parser(&mut vm, &mut scanner, path.gc());
        let x: f64 = kani::any();
        let k = parser.make_constant(Value::Number(x)) as usize;
        let had_error = !parser.errors.borrow().is_empty();
        if n <= u16::MAX as usize {
            assert!(!had_error && k == n, "a constant whose index fits is accepted with that index");
            assert!(chunk.constants.len() == n + 1, "and appended");
        } else {
            assert!(had_error, "a constant whose index does not fit in 16 bits is rejected");
        }
        std::mem::forget(parser);
        std::mem::forget(vm);
        std::mem::forget(chunk);
    }

    #[kani::proof]
    #[kani::unwind(10)]
    #[kani::stub(std::collections::hash_map::RandomState::new, random_state_stub)]
    #[kani::stub(std::fmt::format, fmt_stub)]
    #[kani::stub(std::fmt::write, fmt_write_stub)]
    #[kani::stub(Parser::chunk, Parser::chunk_stub)]
    fn c04_make_constant_limit() {
        make_constant_case(65535);
        make_constant_case(65536);
        kani::cover!(true, "reach-end");
    }

    /// Parser::finalise_compiler: a function body whose LAST INSTRUCTION is not a Return gets one
    /// appended, whatever the operand bytes of that last instruction look like. The body is
    /// `GetLocal <slot>` / `Call <argc>` with a symbolic operand byte (every value, including the one that
    /// equals the Return opcode); afterwards the code must extend beyond the body and end in Return -
    /// otherwise execution falls off the end of the function's code.
    fn body_ends_in_return_case(opcode: OpCode) {
        let op = opcode as u8;
        let mut vm = bare_vm();
        let mut scanner = Scanner::from_source(String::new());
        let mut path = Placed::new(ObjString::new(Gc::dangling(), "m", 1));
        let mut chunk = chunk_with_code(0);
        unsafe { KANI_CHUNK = &mut chunk as *mut Chunk; }
        let mut parser = bare_parser(&mut vm, &mut scanner, path.gc());
        let operand: u8 = kani::any();
        parser.emit_byte(op);
        parser.emit_byte(operand);
        let body_len = chunk.code.len();
        let _ = parser.finalise_compiler();
        let n = chunk.code.len();
        kani::cover!(operand == OpCode::Return as u8, "reach-operand-equals-return-opcode");
        assert!(body_len == 2, "body is one two-byte instruction");
        assert!(n > body_len, "code continues after a body that does not end in a Return instruction");
        assert!(chunk.code[n - 1] == OpCode::Return as u8, "and ends in Return");
        assert!(chunk.code[0] == op && chunk.code[1] == operand, "the body is left intact");
        std::mem::forget(parser);
        std::mem::forget(vm);
        std::mem::forget(chunk);
    }

    #[kani::proof]
    #[kani::unwind(10)]
    #[kani::stub(std::collections::hash_map::RandomState::new, random_state_stub)]
    #[kani::stub(std::fmt::format, fmt_stub)]
    #[kani::stub(std::fmt::write, fmt_write_stub)]
    #[kani::stub(Parser::chunk, Parser::chunk_stub)]
    #[kani::stub(<crate::value::Value as crate::memory::GcManaged>::mark, crate::verif_stubs::value_mark_stub)]
    #[kani::stub(<crate::value::Value as crate::memory::GcManaged>::blacken, crate::verif_stubs::value_blacken_stub)]
    fn c04_function_body_always_ends_in_return() {
        body_ends_in_return_case(OpCode::GetLocal);
        kani::cover!(true, "reach-end");
    }

    /// Compiler::add_upvalue with the table pre-filled to N distinct captures (N = 255, 256) and a
    /// symbolic (index, is_local): existing capture => its own index (dedup); new capture => appended while
    /// fewer than 256, rejected at 256; a returned index always round-trips through u8.
    fn add_upvalue_case(n: usize) {
        let mut c = Compiler::new(FunctionKind::Function, Gc::dangling(), Gc::dangling());
        let mut i = 0;
        while i < n {
            // N distinct (index,is_local) pairs: (0..=255,false)
            c.upvalues.push(Upvalue { index: i as u8, is_local: false });
            c.function.upvalue_count += 1;
            i += 1;
        }
        let index: u8 = kani::any();
        let is_local: bool = kani::any();
        let existing = !is_local && (index as usize) < n;
        let r = c.add_upvalue(index, is_local);
        match r {
            Ok(k) => {
                let k = k as usize;
                assert!(k < c.upvalues.len(), "returned capture index exists");
                assert!(c.upvalues[k].index == index && c.upvalues[k].is_local == is_local, "returned index names the requested capture");
                assert!(c.upvalues.len() <= 256, "at most 256 captures");
                assert!(c.function.upvalue_count == c.upvalues.len(), "count follows the table");
                if existing {
                    assert!(k == index as usize && c.upvalues.len() == n, "an existing capture is reused");
                } else {
                    assert!(k == n && c.upvalues.len() == n + 1, "a new capture is appended");
                }
            }
            Err(_) => {
                assert!(!existing && n == 256, "rejected only when the table is full and the capture is new");
                assert!(c.upvalues.len() == n, "rejection leaves the table unchanged");
            }
        }
        std::mem::forget(c);
    }

    #[kani::proof]
    #[kani::unwind(259)]
    #[kani::stub(std::collections::hash_map::RandomState::new, random_state_stub)]
    fn c04_add_upvalue_limit() {
        add_upvalue_case(255);
        add_upvalue_case(256);
        kani::cover!(true, "reach-end");
    }

    /// Twin: must FAIL.
    #[kani::proof]
    #[kani::unwind(3)]
    #[kani::stub(std::collections::hash_map::RandomState::new, random_state_stub)]
    fn c04_twin_must_fail() {
        let mut c = Compiler::new(FunctionKind::Function, Gc::dangling(), Gc::dangling());
        let len: usize = kani::any();
        kani::assume(len >= 2 && len <= 70000);
        c.chunk.code = vec![0u8; len];
        let _ = c.patch_jump(0);
        assert!(false, "twin");
    }
}
