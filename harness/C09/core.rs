
// ---- verif C09/C10: fiber switch steps on a bare Vm (appended to core.rs) -------------------------
// Steps are driven the way the Invoke opcode drives them - `call_native(Fiber.call | Fiber.yield, argc)`
// - so the specification is on what a program observes after the opcode (which stack slot holds which
// value, which fiber runs, who its caller is), not on which helper pops which temporary.
// Fibers live on leaked boxes (no collection involved); STACK_MAX is 16 in these groups.
#[cfg(kani)]
mod verif_c09 {
    use super::verif_core::*;
    use super::*;
    use crate::object::ObjFiber;
    use crate::verif_stubs::*;
    use crate::vm::verif_vm::*;
    use std::cell::RefCell;

    fn num(v: Value, want: f64) -> bool {
        matches!(v, Value::Number(x) if x.to_bits() == want.to_bits())
    }
    fn is_fiber(v: Value, f: Gc<RefCell<ObjFiber>>) -> bool {
        matches!(v, Value::ObjFiber(g) if g == f)
    }
    fn top(f: Gc<RefCell<ObjFiber>>, depth: usize) -> Value {
        *f.borrow().stack.peek(depth)
    }
    fn len(f: Gc<RefCell<ObjFiber>>) -> usize {
        f.borrow().stack.len()
    }

    /// Code buffers: ips are only saved/restored by the switch steps, never executed here.
    fn code() -> Vec<u8> {
        vec![0u8, 1, 2, 3, 4, 5, 6, 7]
    }

    struct World {
        vm: Vm,
        a: FiberParts,
        b: FiberParts,
    }

    /// A is the running fiber, mid-way through its code, with `extra` values above its closure slot.
    /// B is a fresh fiber over a one-parameter function (arity 2 counts the closure slot).
    fn world(extra: usize) -> World {
        let mut vm = bare_vm();
        let a = leaked_fiber(code(), 1);
        let b = leaked_fiber(code(), 2);
        activate(&mut vm, &a);
        a.fiber.borrow_mut().stack.push(Value::ObjClosure(a.closure));
        let mut i = 0;
        while i < extra {
            a.fiber.borrow_mut().stack.push(Value::Number(100.0 + i as f64));
            i += 1;
        }
        let ip = unsafe { a.chunk.code.as_ptr().offset(3) };
        vm_set_ip(&mut vm, ip);
        World { vm, a, b }
    }

    /// Drives B to a suspended state at a `Fiber.yield(v)`: A calls B with x, B yields v.
    /// Afterwards A runs, its call slot holds v, B waits at its yield expression.
    fn suspend_b(w: &mut World, x: f64, v: f64) {
        let (a, b) = (w.a.fiber, w.b.fiber);
        a.borrow_mut().stack.push(Value::ObjFiber(b));
        a.borrow_mut().stack.push(Value::Number(x));
        let r = vm_call_native(&mut w.vm, fiber_call_native(), 1);
        assert!(r.is_ok(), "first call succeeds");
        // B runs: it evaluates `Fiber.yield(v)`: receiver (stands for the Fiber class) and the argument
        let ip_b = unsafe { w.b.chunk.code.as_ptr().offset(5) };
        vm_set_ip(&mut w.vm, ip_b);
        b.borrow_mut().stack.push(Value::Boolean(true));
        b.borrow_mut().stack.push(Value::Number(v));
        let r = vm_call_native(&mut w.vm, fiber_yield_native(), 1);
        assert!(r.is_ok(), "yield succeeds");
    }

    /// Step 1: calling a new fiber with an argument. Symbolic: the argument, A's stack depth (0..=2 extra).
    #[kani::proof]
    #[kani::unwind(5)]
    #[kani::stub(std::fmt::format, fmt_stub)]
    #[kani::stub(crate::vm::Vm::new_root_obj_err_from_error, crate::vm::verif_vm::err_instance_stub)]
    #[kani::stub(crate::vm::Vm::new_error_from_value, crate::vm::verif_vm::error_from_value_stub)]
    fn c09_call_new_fiber_passes_argument() {
        let extra: usize = kani::any();
        kani::assume(extra <= 2);
        let mut w = world(extra);
        let (a, b) = (w.a.fiber, w.b.fiber);
        let x: f64 = kani::any();
        let ip_before = vm_ip(&w.vm);
        let depth_before = len(a);
        a.borrow_mut().stack.push(Value::ObjFiber(b));
        a.borrow_mut().stack.push(Value::Number(x));
        let r = vm_call_native(&mut w.vm, fiber_call_native(), 1);
        kani::cover!(r.is_ok() && extra == 2, "reach");
        assert!(r.is_ok(), "calling a new fiber with the right argument count succeeds");
        assert!(vm_fiber(&w.vm) == Some(b), "the called fiber runs");
        assert!(b.borrow().caller == Some(a), "the caller is recorded");
        assert!(a.borrow().caller.is_none(), "the caller's own caller is untouched");
        assert!(len(b) == 2, "callee starts with its closure and its parameter");
        assert!(num(top(b, 0), x), "the call argument becomes the parameter");
        assert!(matches!(top(b, 1), Value::ObjClosure(c) if c == w.b.closure), "slot 0 holds the callee's closure");
        assert!(len(a) == depth_before + 1, "the caller keeps exactly the slot of the call expression");
        assert!(is_fiber(top(a, 0), b), "that slot still holds the receiver until the callee yields");
        assert!(a.borrow().frames[0].ip == ip_before, "the caller's resume point is saved");
        assert!(vm_ip(&w.vm) == w.b.chunk.code.as_ptr(), "execution starts at the callee's first instruction");
        assert!(vm_cache_coherent(&w.vm), "cached fiber pointer, ip and chunk denote the running fiber");
        std::mem::forget(w);
    }

    /// Step 2: yield with / without a value. The caller's call expression evaluates to the value / nil.
    #[kani::proof]
    #[kani::unwind(5)]
    #[kani::stub(std::fmt::format, fmt_stub)]
    #[kani::stub(crate::vm::Vm::new_root_obj_err_from_error, crate::vm::verif_vm::err_instance_stub)]
    #[kani::stub(crate::vm::Vm::new_error_from_value, crate::vm::verif_vm::error_from_value_stub)]
    fn c09_yield_returns_value_to_caller() {
        let mut w = world(1);
        let (a, b) = (w.a.fiber, w.b.fiber);
        let x: f64 = kani::any();
        let v: f64 = kani::any();
        let with_value: bool = kani::any();
        let depth_a = len(a);
        a.borrow_mut().stack.push(Value::ObjFiber(b));
        a.borrow_mut().stack.push(Value::Number(x));
        let ip_a = vm_ip(&w.vm);
        assert!(vm_call_native(&mut w.vm, fiber_call_native(), 1).is_ok(), "call");
        let ip_b = unsafe { w.b.chunk.code.as_ptr().offset(5) };
        vm_set_ip(&mut w.vm, ip_b);
        b.borrow_mut().stack.push(Value::Boolean(true)); // receiver of `Fiber.yield`
        let r = if with_value {
            b.borrow_mut().stack.push(Value::Number(v));
            vm_call_native(&mut w.vm, fiber_yield_native(), 1)
        } else {
            vm_call_native(&mut w.vm, fiber_yield_native(), 0)
        };
        kani::cover!(r.is_ok() && with_value, "reach-with-value");
        kani::cover!(r.is_ok() && !with_value, "reach-without-value");
        assert!(r.is_ok(), "yield inside a called fiber succeeds");
        assert!(vm_fiber(&w.vm) == Some(a), "the caller runs again");
        assert!(b.borrow().caller.is_none(), "the yielding fiber is detached from its caller");
        assert!(len(a) == depth_a + 1, "the call expression occupies one slot");
        if with_value {
            assert!(num(top(a, 0), v), "call evaluates to the yielded value");
        } else {
            assert!(matches!(top(a, 0), Value::None), "call evaluates to nil when nothing is yielded");
        }
        assert!(len(b) == 3, "the suspended fiber keeps its locals and the slot of the yield expression");
        assert!(num(top(b, 1), x), "the suspended fiber's parameter is intact");
        assert!(b.borrow().frames[0].ip == ip_b, "the suspended fiber's resume point is saved");
        assert!(vm_ip(&w.vm) == ip_a, "the caller resumes where it called");
        assert!(vm_cache_coherent(&w.vm), "cached fiber pointer, ip and chunk denote the running fiber");
        std::mem::forget(w);
    }

    /// Step 3: resuming a suspended fiber with / without an argument: the pending yield expression
    /// evaluates to the argument / nil.
    #[kani::proof]
    #[kani::unwind(5)]
    #[kani::stub(std::fmt::format, fmt_stub)]
    #[kani::stub(crate::vm::Vm::new_root_obj_err_from_error, crate::vm::verif_vm::err_instance_stub)]
    #[kani::stub(crate::vm::Vm::new_error_from_value, crate::vm::verif_vm::error_from_value_stub)]
    fn c09_resume_passes_value_to_yield() {
        let mut w = world(1);
        let (a, b) = (w.a.fiber, w.b.fiber);
        let x: f64 = kani::any();
        let v: f64 = kani::any();
        let arg: f64 = kani::any();
        let with_arg: bool = kani::any();
        suspend_b(&mut w, x, v);
        // A: the yielded value is consumed, then `b.call(arg)` / `b.call()`
        a.borrow_mut().stack.pop();
        let depth_a = len(a);
        a.borrow_mut().stack.push(Value::ObjFiber(b));
        let r = if with_arg {
            a.borrow_mut().stack.push(Value::Number(arg));
            vm_call_native(&mut w.vm, fiber_call_native(), 1)
        } else {
            vm_call_native(&mut w.vm, fiber_call_native(), 0)
        };
        kani::cover!(r.is_ok() && with_arg, "reach-with-argument");
        kani::cover!(r.is_ok() && !with_arg, "reach-without-argument");
        assert!(r.is_ok(), "resuming a suspended fiber succeeds");
        assert!(vm_fiber(&w.vm) == Some(b), "the resumed fiber runs");
        assert!(b.borrow().caller == Some(a), "the caller is recorded again");
        assert!(len(b) == 3, "the resumed fiber has its locals and the value of the yield expression");
        if with_arg {
            assert!(num(top(b, 0), arg), "yield evaluates to the argument of call");
        } else {
            assert!(matches!(top(b, 0), Value::None), "yield evaluates to nil when call has no argument");
        }
        assert!(num(top(b, 1), x), "the resumed fiber's locals are intact");
        assert!(len(a) == depth_a + 1 && is_fiber(top(a, 0), b), "the caller keeps the slot of its call expression");
        assert!(vm_ip(&w.vm) == unsafe { w.b.chunk.code.as_ptr().offset(5) }, "the fiber resumes after its yield");
        assert!(vm_cache_coherent(&w.vm), "cached fiber pointer, ip and chunk denote the running fiber");
        std::mem::forget(w);
    }

    /// Step 4: a fiber's body returns: the caller's call expression evaluates to the return value and the
    /// fiber is finished.
    #[kani::proof]
    #[kani::unwind(5)]
    #[kani::stub(std::fmt::format, fmt_stub)]
    #[kani::stub(crate::vm::Vm::new_root_obj_err_from_error, crate::vm::verif_vm::err_instance_stub)]
    #[kani::stub(crate::vm::Vm::new_error_from_value, crate::vm::verif_vm::error_from_value_stub)]
    fn c09_return_finishes_fiber() {
        let mut w = world(1);
        let (a, b) = (w.a.fiber, w.b.fiber);
        let x: f64 = kani::any();
        let ret: f64 = kani::any();
        let depth_a = len(a);
        let ip_a = vm_ip(&w.vm);
        a.borrow_mut().stack.push(Value::ObjFiber(b));
        a.borrow_mut().stack.push(Value::Number(x));
        assert!(vm_call_native(&mut w.vm, fiber_call_native(), 1).is_ok(), "call");
        b.borrow_mut().stack.push(Value::Number(ret));
        let r = vm_return_impl(&mut w.vm);
        kani::cover!(r.is_ok(), "reach");
        assert!(matches!(r, Ok(None)), "returning from a called fiber continues in the caller");
        assert!(vm_fiber(&w.vm) == Some(a), "the caller runs again");
        assert!(b.borrow().has_finished(), "the fiber is finished");
        assert!(b.borrow().caller.is_none(), "the finished fiber is detached");
        assert!(len(a) == depth_a + 1 && num(top(a, 0), ret), "call evaluates to the body's return value");
        assert!(vm_ip(&w.vm) == ip_a, "the caller resumes where it called");
        assert!(vm_cache_coherent(&w.vm), "cached fiber pointer, ip and chunk denote the running fiber");
        // and a finished fiber cannot be called again; the attempt changes nothing
        a.borrow_mut().stack.pop();
        a.borrow_mut().stack.push(Value::ObjFiber(b));
        let r2 = call_fiber_call(&mut w.vm, 0);
        assert!(r2.is_err(), "calling a finished fiber is an error");
        assert!(vm_fiber(&w.vm) == Some(a) && b.borrow().caller.is_none() && a.borrow().caller.is_none(), "failed call leaves the fibers untouched");
        std::mem::forget(w);
    }

    /// Step 5(c): wrong argument counts through the natives leave every fiber's links, frames and the
    /// running fiber untouched.
    #[kani::proof]
    #[kani::unwind(5)]
    #[kani::stub(std::fmt::format, fmt_stub)]
    #[kani::stub(crate::vm::Vm::new_root_obj_err_from_error, crate::vm::verif_vm::err_instance_stub)]
    #[kani::stub(crate::vm::Vm::new_error_from_value, crate::vm::verif_vm::error_from_value_stub)]
    fn c09_errors_leave_state_untouched() {
        let mut w = world(1);
        let (a, b) = (w.a.fiber, w.b.fiber);
        let x: f64 = kani::any();
        // (c) new fiber called with the wrong number of arguments
        a.borrow_mut().stack.push(Value::ObjFiber(b));
        let r = call_fiber_call(&mut w.vm, 0);
        assert!(r.is_err(), "missing argument is an error");
        assert!(vm_fiber(&w.vm) == Some(a) && b.borrow().caller.is_none() && b.borrow().is_new(), "failed call leaves the callee new and unlinked");
        // now really call it: A -> B
        a.borrow_mut().stack.push(Value::Number(x));
        assert!(vm_call_native(&mut w.vm, fiber_call_native(), 1).is_ok(), "call");
        // resuming with too many arguments is rejected as well
        let ip_b = unsafe { w.b.chunk.code.as_ptr().offset(5) };
        vm_set_ip(&mut w.vm, ip_b);
        b.borrow_mut().stack.push(Value::Boolean(true));
        assert!(vm_call_native(&mut w.vm, fiber_yield_native(), 0).is_ok(), "yield");
        a.borrow_mut().stack.pop();
        a.borrow_mut().stack.push(Value::ObjFiber(b));
        a.borrow_mut().stack.push(Value::Number(1.0));
        a.borrow_mut().stack.push(Value::Number(2.0));
        let r = call_fiber_call(&mut w.vm, 2);
        kani::cover!(r.is_err(), "reach");
        assert!(r.is_err(), "resuming with two arguments is an error");
        assert!(vm_fiber(&w.vm) == Some(a) && b.borrow().caller.is_none() && b.borrow().frames.len() == 1, "failed resume leaves the fibers untouched");
        assert!(vm_cache_coherent(&w.vm), "cached state coherent");
        std::mem::forget(w);
    }

    /// Step 5(a) proper: the target HAS a caller (it is running or waiting on a callee): always rejected.
    #[kani::proof]
    #[kani::unwind(5)]
    #[kani::stub(std::fmt::format, fmt_stub)]
    #[kani::stub(crate::vm::Vm::new_root_obj_err_from_error, crate::vm::verif_vm::err_instance_stub)]
    #[kani::stub(crate::vm::Vm::new_error_from_value, crate::vm::verif_vm::error_from_value_stub)]
    fn c09_reentrant_call_rejected_and_harmless() {
        let mut w = world(1);
        let (a, b) = (w.a.fiber, w.b.fiber);
        let c = leaked_fiber(code(), 2);
        let x: f64 = kani::any();
        // A -> B
        a.borrow_mut().stack.push(Value::ObjFiber(b));
        a.borrow_mut().stack.push(Value::Number(x));
        assert!(vm_call_native(&mut w.vm, fiber_call_native(), 1).is_ok(), "call A->B");
        // B -> C
        b.borrow_mut().stack.push(Value::ObjFiber(c.fiber));
        b.borrow_mut().stack.push(Value::Number(x));
        assert!(vm_call_native(&mut w.vm, fiber_call_native(), 1).is_ok(), "call B->C");
        // C calls B (waiting on C, caller = A) or itself (running, caller = B): rejected
        let target_is_self: bool = kani::any();
        let with_arg: bool = kani::any();
        let target = if target_is_self { c.fiber } else { b };
        let depth_c = len(c.fiber);
        c.fiber.borrow_mut().stack.push(Value::ObjFiber(target));
        let r = if with_arg {
            c.fiber.borrow_mut().stack.push(Value::Number(7.0));
            call_fiber_call(&mut w.vm, 1)
        } else {
            call_fiber_call(&mut w.vm, 0)
        };
        kani::cover!(target_is_self, "reach-self");
        kani::cover!(!target_is_self, "reach-ancestor");
        assert!(r.is_err(), "calling a fiber that is already running or waiting is an error");
        assert!(vm_fiber(&w.vm) == Some(c.fiber), "the running fiber keeps running");
        assert!(c.fiber.borrow().caller == Some(b), "running fiber's caller intact");
        assert!(b.borrow().caller == Some(a), "waiting fiber's caller intact");
        assert!(a.borrow().caller.is_none(), "root fiber's caller intact");
        assert!(b.borrow().frames.len() == 1 && c.fiber.borrow().frames.len() == 1, "frames intact");
        assert!(len(c.fiber) >= depth_c, "the running fiber's locals are not popped");
        assert!(vm_cache_coherent(&w.vm), "cached state coherent");
        std::mem::forget(w);
    }

    /// Step 5(b): yield with no caller (module-level code): an error, nothing switches.
    #[kani::proof]
    #[kani::unwind(5)]
    #[kani::stub(std::fmt::format, fmt_stub)]
    #[kani::stub(crate::vm::Vm::new_root_obj_err_from_error, crate::vm::verif_vm::err_instance_stub)]
    #[kani::stub(crate::vm::Vm::new_error_from_value, crate::vm::verif_vm::error_from_value_stub)]
    fn c09_yield_without_caller_is_error() {
        let mut w = world(1);
        let a = w.a.fiber;
        let with_value: bool = kani::any();
        a.borrow_mut().stack.push(Value::Boolean(true));
        let r = if with_value {
            a.borrow_mut().stack.push(Value::Number(3.0));
            call_fiber_yield(&mut w.vm, 1)
        } else {
            call_fiber_yield(&mut w.vm, 0)
        };
        kani::cover!(with_value, "reach");
        assert!(r.is_err(), "yield outside any called fiber is an error");
        assert!(vm_fiber(&w.vm) == Some(a), "the running fiber keeps running");
        assert!(a.borrow().caller.is_none() && a.borrow().frames.len() == 1, "links and frames intact");
        assert!(vm_cache_coherent(&w.vm), "cached state coherent");
        // too many arguments
        a.borrow_mut().stack.push(Value::Number(1.0));
        a.borrow_mut().stack.push(Value::Number(2.0));
        assert!(call_fiber_yield(&mut w.vm, 2).is_err(), "yield takes at most one argument");
        std::mem::forget(w);
    }

    /// Twin: must FAIL.
    #[kani::proof]
    #[kani::unwind(5)]
    #[kani::stub(std::fmt::format, fmt_stub)]
    #[kani::stub(crate::vm::Vm::new_root_obj_err_from_error, crate::vm::verif_vm::err_instance_stub)]
    #[kani::stub(crate::vm::Vm::new_error_from_value, crate::vm::verif_vm::error_from_value_stub)]
    fn c09_twin_must_fail() {
        let mut w = world(1);
        let (a, b) = (w.a.fiber, w.b.fiber);
        let x: f64 = kani::any();
        a.borrow_mut().stack.push(Value::ObjFiber(b));
        a.borrow_mut().stack.push(Value::Number(x));
        let _ = vm_call_native(&mut w.vm, fiber_call_native(), 1);
        assert!(false, "twin");
    }
}
