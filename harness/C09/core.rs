// ---- verif C09/C10: fiber switch steps on a bare Vm (appended to core.rs) -------------------------
// The step under test is driven the way the Invoke opcode drives it - `call_native(Fiber.call |
// Fiber.yield, argc)` / `return_impl` - so the specification is on what a program observes after the
// opcode (which stack slot holds which value, which fiber runs, who its caller is), not on which helper
// pops which temporary.
//
// Layout of every harness: control is concrete, data (every value handed over) is symbolic.
//   * fibers, closures, functions and chunks live in `FiberStore` locals of the proof function (typed
//     CBMC objects; a leaked Box costs 10x the SAT variables per access), STACK_MAX is 16;
//   * pre-states that need earlier switches are produced by the REAL `Vm::load_fiber` / `unload_fiber`
//     called directly (`setup_*`), plus the native-arity bookkeeping `call_native` wraps around them;
//     each `setup_*` ends by asserting the same full-state predicate (`state_*`) that the one-step
//     harness of that switch proves for the `call_native`-driven step, so the chain of harnesses is an
//     induction over states described by those predicates.
#[cfg(kani)]
mod verif_c09 {
    use super::verif_core::*;
    use super::*;
    use crate::memory::verif_mem::Placed;
    use crate::object::{ObjClosure, ObjFiber};
    use crate::verif_stubs::*;
    use crate::vm::verif_vm::*;
    use std::cell::RefCell;

    type Fib = Gc<RefCell<ObjFiber>>;

    fn num(v: Value, want: f64) -> bool {
        matches!(v, Value::Number(x) if x.to_bits() == want.to_bits())
    }
    fn is_fiber(v: Value, f: Fib) -> bool {
        matches!(v, Value::ObjFiber(g) if g == f)
    }
    fn is_closure(v: Value, c: Gc<ObjClosure>) -> bool {
        matches!(v, Value::ObjClosure(g) if g == c)
    }
    fn is_true(v: Value) -> bool {
        matches!(v, Value::Boolean(true))
    }
    fn top(f: Fib, depth: usize) -> Value {
        *f.borrow().stack.peek(depth)
    }
    fn len(f: Fib) -> usize {
        f.borrow().stack.len()
    }
    fn frame_ip(f: Fib) -> *const u8 {
        f.borrow().frames[0].ip
    }

    /// Code buffers: ips are only saved/restored by the switch steps, never executed here.
    fn code() -> Vec<u8> {
        vec![0u8, 1, 2, 3, 4, 5, 6, 7]
    }
    const IP_A: isize = 3; // where A is when it evaluates `b.call(..)`
    const IP_B: isize = 5; // where B is when it evaluates `Fiber.yield(..)`
    const LOCAL_A: f64 = 100.0;

    struct World {
        vm: Vm,
        a: FiberParts,
        b: FiberParts,
    }
    fn ip_a(w: &World) -> *const u8 {
        unsafe { w.a.chunk.code.as_ptr().offset(IP_A) }
    }
    fn ip_b(w: &World) -> *const u8 {
        unsafe { w.b.chunk.code.as_ptr().offset(IP_B) }
    }

    /// A is the running fiber, mid-way through its code, with `extra` locals above its closure slot.
    /// B is a fresh fiber over a one-parameter function (arity 2 counts the closure slot).
    fn world(sa: &mut FiberStore, sb: &mut FiberStore, extra: usize) -> World {
        let mut vm = bare_vm();
        let a = sa.init(code(), 1);
        let b = sb.init(code(), 2);
        activate(&mut vm, &a);
        a.fiber.borrow_mut().stack.push(Value::ObjClosure(a.closure));
        let mut i = 0;
        while i < extra {
            a.fiber.borrow_mut().stack.push(Value::Number(LOCAL_A + i as f64));
            i += 1;
        }
        let w = World { vm, a, b };
        let ip = ip_a(&w);
        let mut w = w;
        vm_set_ip(&mut w.vm, ip);
        w
    }

    // ---- full-state predicates (everything a later switch step reads) --------------------------------
    /// A (one local) has called B with `x`; B runs from its first instruction.
    fn state_a_called_b(w: &World, x: f64, b_ip: *const u8) -> bool {
        let (a, b) = (w.a.fiber, w.b.fiber);
        vm_fiber(&w.vm) == Some(b)
            && vm_cache_coherent(&w.vm)
            && vm_ip(&w.vm) == b_ip
            && b.borrow().caller == Some(a)
            && a.borrow().caller.is_none()
            && a.borrow().frames.len() == 1
            && b.borrow().frames.len() == 1
            && frame_ip(a) == ip_a(w)
            && len(a) == 3
            && is_fiber(top(a, 0), b)
            && num(top(a, 1), LOCAL_A)
            && is_closure(top(a, 2), w.a.closure)
            && len(b) == 2
            && num(top(b, 0), x)
            && is_closure(top(b, 1), w.b.closure)
            && b.borrow().native_arity.is_none()
            && b.borrow().exc_handlers.is_empty()
            && a.borrow().exc_handlers.is_empty()
    }
    /// B has yielded: A runs again, its call slot holds `slot`; B waits at IP_B with its locals and the
    /// slot of the yield expression (still holding the receiver of `Fiber.yield`).
    fn state_b_suspended(w: &World, x: f64, slot_is: impl Fn(Value) -> bool) -> bool {
        let (a, b) = (w.a.fiber, w.b.fiber);
        vm_fiber(&w.vm) == Some(a)
            && vm_cache_coherent(&w.vm)
            && vm_ip(&w.vm) == ip_a(w)
            && b.borrow().caller.is_none()
            && a.borrow().caller.is_none()
            && a.borrow().frames.len() == 1
            && b.borrow().frames.len() == 1
            && frame_ip(b) == ip_b(w)
            && len(a) == 3
            && slot_is(top(a, 0))
            && num(top(a, 1), LOCAL_A)
            && is_closure(top(a, 2), w.a.closure)
            && len(b) == 3
            && is_true(top(b, 0))
            && num(top(b, 1), x)
            && is_closure(top(b, 2), w.b.closure)
            && a.borrow().native_arity.is_none()
            && b.borrow().exc_handlers.is_empty()
            && a.borrow().exc_handlers.is_empty()
    }

    // ---- set-up by the real switch functions, called directly ---------------------------------------
    /// A evaluates `b.call(x)` for the new fiber B.
    fn setup_call_b(w: &mut World, x: f64) {
        let (a, b) = (w.a.fiber, w.b.fiber);
        a.borrow_mut().stack.push(Value::ObjFiber(b));
        a.borrow_mut().stack.push(Value::Number(x));
        a.borrow_mut().set_native_arity(1);
        let r = w.vm.load_fiber(b, Some(Value::Number(x)));
        assert!(r.is_ok(), "set-up: first call succeeds");
        b.borrow_mut().take_native_arity();
        assert!(state_a_called_b(w, x, w.b.chunk.code.as_ptr()), "set-up state = state proved for the call step");
    }
    /// B (called with x) evaluates `Fiber.yield(v)`.
    fn setup_yield_b(w: &mut World, x: f64, v: f64) {
        let (a, b) = (w.a.fiber, w.b.fiber);
        setup_call_b(w, x);
        let ip = ip_b(w);
        vm_set_ip(&mut w.vm, ip);
        b.borrow_mut().stack.push(Value::Boolean(true)); // receiver of `Fiber.yield` (the Fiber class)
        b.borrow_mut().stack.push(Value::Number(v));
        b.borrow_mut().set_native_arity(1);
        let r = w.vm.unload_fiber(Some(Value::Number(v)));
        assert!(r.is_ok(), "set-up: yield succeeds");
        a.borrow_mut().take_native_arity();
        assert!(state_b_suspended(w, x, |s| num(s, v)), "set-up state = state proved for the yield step");
    }

    // ---- step 1: calling a new fiber with an argument -------------------------------------------------
    fn call_new_fiber_case(extra: usize) {
        let mut sa = FiberStore::empty();
        let mut sb = FiberStore::empty();
        let mut nat = Placed::new(ObjNative::new(Gc::dangling(), fiber_call as NativeFn, true));
        let mut w = world(&mut sa, &mut sb, extra);
        let (a, b) = (w.a.fiber, w.b.fiber);
        let x: f64 = kani::any();
        let ip_before = vm_ip(&w.vm);
        let depth_before = len(a);
        a.borrow_mut().stack.push(Value::ObjFiber(b));
        a.borrow_mut().stack.push(Value::Number(x));
        let r = vm_call_native(&mut w.vm, nat.gc(), 1);
        kani::cover!(r.is_ok(), "reach");
        assert!(r.is_ok(), "calling a new fiber with the right argument count succeeds");
        assert!(vm_fiber(&w.vm) == Some(b), "the called fiber runs");
        assert!(b.borrow().caller == Some(a), "the caller is recorded");
        assert!(a.borrow().caller.is_none(), "the caller's own caller is untouched");
        assert!(len(b) == 2, "callee starts with its closure and its parameter");
        assert!(num(top(b, 0), x), "the call argument becomes the parameter");
        assert!(is_closure(top(b, 1), w.b.closure), "slot 0 holds the callee's closure");
        assert!(len(a) == depth_before + 1, "the caller keeps exactly the slot of the call expression");
        assert!(is_fiber(top(a, 0), b), "that slot still holds the receiver until the callee yields");
        assert!(frame_ip(a) == ip_before, "the caller's resume point is saved");
        assert!(vm_ip(&w.vm) == w.b.chunk.code.as_ptr(), "execution starts at the callee's first instruction");
        assert!(vm_cache_coherent(&w.vm), "cached fiber pointer, ip and chunk denote the running fiber");
        if extra == 1 {
            assert!(state_a_called_b(&w, x, w.b.chunk.code.as_ptr()), "full state after the call step");
        }
        std::mem::forget(r);
        std::mem::forget(w);
    }
    #[kani::proof]
    #[kani::unwind(5)]
    #[kani::stub(std::fmt::format, fmt_stub)]
    #[kani::stub(crate::vm::Vm::new_root_obj_err_from_error, crate::vm::verif_vm::err_instance_stub)]
    #[kani::stub(crate::vm::Vm::new_error_from_value, crate::vm::verif_vm::error_from_value_stub)]
    fn c09_call_new_fiber_passes_argument_depth0() {
        call_new_fiber_case(0);
    }
    #[kani::proof]
    #[kani::unwind(5)]
    #[kani::stub(std::fmt::format, fmt_stub)]
    #[kani::stub(crate::vm::Vm::new_root_obj_err_from_error, crate::vm::verif_vm::err_instance_stub)]
    #[kani::stub(crate::vm::Vm::new_error_from_value, crate::vm::verif_vm::error_from_value_stub)]
    fn c09_call_new_fiber_passes_argument_depth1() {
        call_new_fiber_case(1);
    }
    #[kani::proof]
    #[kani::unwind(5)]
    #[kani::stub(std::fmt::format, fmt_stub)]
    #[kani::stub(crate::vm::Vm::new_root_obj_err_from_error, crate::vm::verif_vm::err_instance_stub)]
    #[kani::stub(crate::vm::Vm::new_error_from_value, crate::vm::verif_vm::error_from_value_stub)]
    fn c09_call_new_fiber_passes_argument_depth2() {
        call_new_fiber_case(2);
    }

    // ---- step 2: yield with / without a value -----------------------------------------------------------
    fn yield_case(with_value: bool) {
        let mut sa = FiberStore::empty();
        let mut sb = FiberStore::empty();
        let mut nat = Placed::new(ObjNative::new(Gc::dangling(), fiber_yield as NativeFn, true));
        let mut w = world(&mut sa, &mut sb, 1);
        let (a, b) = (w.a.fiber, w.b.fiber);
        let x: f64 = kani::any();
        let v: f64 = kani::any();
        setup_call_b(&mut w, x);
        let ip = ip_b(&w);
        vm_set_ip(&mut w.vm, ip);
        b.borrow_mut().stack.push(Value::Boolean(true)); // receiver of `Fiber.yield`
        let r = if with_value {
            b.borrow_mut().stack.push(Value::Number(v));
            vm_call_native(&mut w.vm, nat.gc(), 1)
        } else {
            vm_call_native(&mut w.vm, nat.gc(), 0)
        };
        kani::cover!(r.is_ok(), "reach");
        assert!(r.is_ok(), "yield inside a called fiber succeeds");
        assert!(vm_fiber(&w.vm) == Some(a), "the caller runs again");
        assert!(b.borrow().caller.is_none(), "the yielding fiber is detached from its caller");
        assert!(len(a) == 3, "the call expression occupies one slot");
        if with_value {
            assert!(num(top(a, 0), v), "call evaluates to the yielded value");
            assert!(state_b_suspended(&w, x, |s| num(s, v)), "full state after the yield step");
        } else {
            assert!(matches!(top(a, 0), Value::None), "call evaluates to nil when nothing is yielded");
            assert!(state_b_suspended(&w, x, |s| matches!(s, Value::None)), "full state after the yield step");
        }
        assert!(len(b) == 3, "the suspended fiber keeps its locals and the slot of the yield expression");
        assert!(num(top(b, 1), x), "the suspended fiber's parameter is intact");
        assert!(frame_ip(b) == ip, "the suspended fiber's resume point is saved");
        assert!(vm_ip(&w.vm) == ip_a(&w), "the caller resumes where it called");
        assert!(vm_cache_coherent(&w.vm), "cached fiber pointer, ip and chunk denote the running fiber");
        std::mem::forget(r);
        std::mem::forget(w);
    }
    #[kani::proof]
    #[kani::unwind(5)]
    #[kani::stub(std::fmt::format, fmt_stub)]
    #[kani::stub(crate::vm::Vm::new_root_obj_err_from_error, crate::vm::verif_vm::err_instance_stub)]
    #[kani::stub(crate::vm::Vm::new_error_from_value, crate::vm::verif_vm::error_from_value_stub)]
    fn c09_yield_returns_value_to_caller_with_value() {
        yield_case(true);
    }
    #[kani::proof]
    #[kani::unwind(5)]
    #[kani::stub(std::fmt::format, fmt_stub)]
    #[kani::stub(crate::vm::Vm::new_root_obj_err_from_error, crate::vm::verif_vm::err_instance_stub)]
    #[kani::stub(crate::vm::Vm::new_error_from_value, crate::vm::verif_vm::error_from_value_stub)]
    fn c09_yield_returns_value_to_caller_without_value() {
        yield_case(false);
    }

    // ---- step 2b: captured variables stay shared across a suspension (also C06) ----------------------
    /// A and B each have a local captured by a closure (an OPEN upvalue on slot 1 of their stacks) when B
    /// is called and when it yields. After each switch both variables are still open - the closure and
    /// the declaring scope still share the very stack slot: a write to the slot is seen through the
    /// upvalue and vice versa - and each fiber's open list is untouched.
    #[kani::proof]
    #[kani::unwind(5)]
    #[kani::stub(std::fmt::format, fmt_stub)]
    #[kani::stub(crate::vm::Vm::new_root_obj_err_from_error, crate::vm::verif_vm::err_instance_stub)]
    #[kani::stub(crate::vm::Vm::new_error_from_value, crate::vm::verif_vm::error_from_value_stub)]
    fn c09_captured_variables_stay_open_across_switches() {
        use crate::object::ObjUpvalue;
        let mut sa = FiberStore::empty();
        let mut sb = FiberStore::empty();
        let mut nat_call = Placed::new(ObjNative::new(Gc::dangling(), fiber_call as NativeFn, true));
        let mut nat_yield = Placed::new(ObjNative::new(Gc::dangling(), fiber_yield as NativeFn, true));
        let mut w = world(&mut sa, &mut sb, 1);
        let (a, b) = (w.a.fiber, w.b.fiber);
        let x: f64 = kani::any();
        let v: f64 = kani::any();
        // A's local (slot 1) is captured
        let slot_a = {
            let mut f = a.borrow_mut(); // (a `let x = &mut a.borrow_mut()...` would extend the RefMut to the end of the function)
            &mut f.stack[1] as *mut Value
        };
        let mut up_a = Placed::new(RefCell::new(ObjUpvalue::new(slot_a)));
        a.borrow_mut().open_upvalues = Some(up_a.gc());
        // A: b.call(x)
        a.borrow_mut().stack.push(Value::ObjFiber(b));
        a.borrow_mut().stack.push(Value::Number(x));
        let r1 = vm_call_native(&mut w.vm, nat_call.gc(), 1);
        assert!(r1.is_ok() && vm_fiber(&w.vm) == Some(b), "B runs");
        assert!(up_a.gc().borrow().is_open() && a.borrow().open_upvalues == Some(up_a.gc()), "calling another fiber leaves the caller's captured variable open");
        // B's parameter (slot 1) is captured, then B yields v
        let slot_b = {
            let mut f = b.borrow_mut();
            &mut f.stack[1] as *mut Value
        };
        let mut up_b = Placed::new(RefCell::new(ObjUpvalue::new(slot_b)));
        b.borrow_mut().open_upvalues = Some(up_b.gc());
        let ip = ip_b(&w);
        vm_set_ip(&mut w.vm, ip);
        b.borrow_mut().stack.push(Value::Boolean(true));
        b.borrow_mut().stack.push(Value::Number(v));
        let r2 = vm_call_native(&mut w.vm, nat_yield.gc(), 1);
        kani::cover!(r2.is_ok(), "reach");
        assert!(r2.is_ok() && vm_fiber(&w.vm) == Some(a), "A runs again");
        assert!(up_b.gc().borrow().is_open(), "yielding leaves the suspended fiber's captured variable open");
        assert!(b.borrow().open_upvalues == Some(up_b.gc()) && up_b.gc().borrow().next.is_none(), "its open list is untouched");
        assert!(up_a.gc().borrow().is_open() && a.borrow().open_upvalues == Some(up_a.gc()), "and so is the caller's");
        // the closure and the scope still share the variable, both ways
        let z: f64 = kani::any();
        b.borrow_mut().stack[1] = Value::Number(z);
        assert!(num(up_b.gc().borrow().get(), z), "a write by the suspended scope is seen through the closure");
        let y: f64 = kani::any();
        up_b.gc().borrow_mut().set(Value::Number(y));
        assert!(num(b.borrow().stack[1], y), "a write through the closure reaches the suspended fiber's local");
        assert!(num(up_a.gc().borrow().get(), LOCAL_A), "the caller's captured local is intact");
        std::mem::forget(r1);
        std::mem::forget(r2);
        std::mem::forget(w);
    }

    // ---- step 3: resuming a suspended fiber with / without an argument ------------------------------------
    fn resume_case(with_arg: bool) {
        let mut sa = FiberStore::empty();
        let mut sb = FiberStore::empty();
        let mut nat = Placed::new(ObjNative::new(Gc::dangling(), fiber_call as NativeFn, true));
        let mut w = world(&mut sa, &mut sb, 1);
        let (a, b) = (w.a.fiber, w.b.fiber);
        let x: f64 = kani::any();
        let v: f64 = kani::any();
        let arg: f64 = kani::any();
        setup_yield_b(&mut w, x, v);
        // A: the yielded value is consumed, then `b.call(arg)` / `b.call()`
        a.borrow_mut().stack.pop();
        let depth_a = len(a);
        a.borrow_mut().stack.push(Value::ObjFiber(b));
        let r = if with_arg {
            a.borrow_mut().stack.push(Value::Number(arg));
            vm_call_native(&mut w.vm, nat.gc(), 1)
        } else {
            vm_call_native(&mut w.vm, nat.gc(), 0)
        };
        kani::cover!(r.is_ok(), "reach");
        assert!(r.is_ok(), "resuming a suspended fiber succeeds");
        assert!(vm_fiber(&w.vm) == Some(b), "the resumed fiber runs");
        assert!(b.borrow().caller == Some(a), "the caller is recorded again");
        assert!(len(b) == 3, "the resumed fiber has its locals and the value of the yield expression");
        if with_arg {
            assert!(num(top(b, 0), arg), "yield evaluates to the argument of call");
        } else {
            assert!(matches!(top(b, 0), Value::None), "yield evaluates to nil when call has no argument");
        }
        assert!(num(top(b, 1), x), "the resumed fiber's locals are intact");
        assert!(len(a) == depth_a + 1 && is_fiber(top(a, 0), b), "the caller keeps the slot of its call expression");
        assert!(vm_ip(&w.vm) == ip_b(&w), "the fiber resumes after its yield");
        assert!(vm_cache_coherent(&w.vm), "cached fiber pointer, ip and chunk denote the running fiber");
        std::mem::forget(r);
        std::mem::forget(w);
    }
    #[kani::proof]
    #[kani::unwind(5)]
    #[kani::stub(std::fmt::format, fmt_stub)]
    #[kani::stub(crate::vm::Vm::new_root_obj_err_from_error, crate::vm::verif_vm::err_instance_stub)]
    #[kani::stub(crate::vm::Vm::new_error_from_value, crate::vm::verif_vm::error_from_value_stub)]
    fn c09_resume_passes_value_to_yield_with_arg() {
        resume_case(true);
    }
    #[kani::proof]
    #[kani::unwind(5)]
    #[kani::stub(std::fmt::format, fmt_stub)]
    #[kani::stub(crate::vm::Vm::new_root_obj_err_from_error, crate::vm::verif_vm::err_instance_stub)]
    #[kani::stub(crate::vm::Vm::new_error_from_value, crate::vm::verif_vm::error_from_value_stub)]
    fn c09_resume_passes_value_to_yield_without_arg() {
        resume_case(false);
    }

    // ---- step 4: a fiber's body returns ---------------------------------------------------------------------
    #[kani::proof]
    #[kani::unwind(5)]
    #[kani::stub(std::fmt::format, fmt_stub)]
    #[kani::stub(crate::vm::Vm::new_root_obj_err_from_error, crate::vm::verif_vm::err_instance_stub)]
    #[kani::stub(crate::vm::Vm::new_error_from_value, crate::vm::verif_vm::error_from_value_stub)]
    fn c09_return_finishes_fiber() {
        let mut sa = FiberStore::empty();
        let mut sb = FiberStore::empty();
        let mut w = world(&mut sa, &mut sb, 1);
        let (a, b) = (w.a.fiber, w.b.fiber);
        let x: f64 = kani::any();
        let ret: f64 = kani::any();
        setup_call_b(&mut w, x);
        b.borrow_mut().stack.push(Value::Number(ret));
        let r = vm_return_impl(&mut w.vm);
        kani::cover!(r.is_ok(), "reach");
        assert!(matches!(r, Ok(None)), "returning from a called fiber continues in the caller");
        assert!(vm_fiber(&w.vm) == Some(a), "the caller runs again");
        assert!(b.borrow().has_finished(), "the fiber is finished");
        assert!(b.borrow().caller.is_none(), "the finished fiber is detached");
        assert!(len(a) == 3 && num(top(a, 0), ret), "call evaluates to the body's return value");
        assert!(num(top(a, 1), LOCAL_A), "the caller's locals are intact");
        assert!(vm_ip(&w.vm) == ip_a(&w), "the caller resumes where it called");
        assert!(vm_cache_coherent(&w.vm), "cached fiber pointer, ip and chunk denote the running fiber");
        std::mem::forget(r);
        std::mem::forget(w);
    }

    // ---- step 5: rejected calls leave every fiber's links, frames and the running fiber untouched ------------
    /// (a) a finished fiber cannot be called again.
    #[kani::proof]
    #[kani::unwind(5)]
    #[kani::stub(std::fmt::format, fmt_stub)]
    #[kani::stub(crate::vm::Vm::new_root_obj_err_from_error, crate::vm::verif_vm::err_instance_stub)]
    #[kani::stub(crate::vm::Vm::new_error_from_value, crate::vm::verif_vm::error_from_value_stub)]
    fn c09_finished_fiber_cannot_be_called() {
        let mut sa = FiberStore::empty();
        let mut sb = FiberStore::empty();
        let mut w = world(&mut sa, &mut sb, 1);
        let (a, b) = (w.a.fiber, w.b.fiber);
        // B has run to completion: no frames, no caller (the state c09_return_finishes_fiber proves)
        b.borrow_mut().frames.pop();
        let with_arg: bool = kani::any();
        a.borrow_mut().stack.push(Value::ObjFiber(b));
        let r = if with_arg {
            a.borrow_mut().stack.push(Value::Number(1.0));
            call_fiber_call(&mut w.vm, 1)
        } else {
            call_fiber_call(&mut w.vm, 0)
        };
        kani::cover!(r.is_err(), "reach");
        assert!(r.is_err(), "calling a finished fiber is an error");
        assert!(vm_fiber(&w.vm) == Some(a) && b.borrow().caller.is_none() && a.borrow().caller.is_none(), "failed call leaves the fibers untouched");
        assert!(b.borrow().has_finished() && a.borrow().frames.len() == 1, "frames intact");
        assert!(vm_cache_coherent(&w.vm), "cached state coherent");
        std::mem::forget(r);
        std::mem::forget(w);
    }

    /// (c) a new fiber called with the wrong number of arguments.
    fn new_fiber_wrong_argc_case(argc: usize) {
        let mut sa = FiberStore::empty();
        let mut sb = FiberStore::empty();
        let mut w = world(&mut sa, &mut sb, 1);
        let (a, b) = (w.a.fiber, w.b.fiber);
        a.borrow_mut().stack.push(Value::ObjFiber(b));
        let mut i = 0;
        while i < argc {
            a.borrow_mut().stack.push(Value::Number(1.0));
            i += 1;
        }
        let r = call_fiber_call(&mut w.vm, argc);
        kani::cover!(r.is_err(), "reach");
        assert!(r.is_err(), "a one-parameter fiber called with 0 or 2 arguments is an error");
        assert!(vm_fiber(&w.vm) == Some(a) && b.borrow().caller.is_none() && b.borrow().is_new(), "failed call leaves the callee new and unlinked");
        assert!(a.borrow().caller.is_none() && a.borrow().frames.len() == 1, "caller intact");
        assert!(len(b) == 0, "nothing was pushed onto the callee");
        assert!(vm_cache_coherent(&w.vm), "cached state coherent");
        std::mem::forget(r);
        std::mem::forget(w);
    }
    #[kani::proof]
    #[kani::unwind(5)]
    #[kani::stub(std::fmt::format, fmt_stub)]
    #[kani::stub(crate::vm::Vm::new_root_obj_err_from_error, crate::vm::verif_vm::err_instance_stub)]
    #[kani::stub(crate::vm::Vm::new_error_from_value, crate::vm::verif_vm::error_from_value_stub)]
    fn c09_new_fiber_wrong_argc_0() {
        new_fiber_wrong_argc_case(0);
    }
    #[kani::proof]
    #[kani::unwind(5)]
    #[kani::stub(std::fmt::format, fmt_stub)]
    #[kani::stub(crate::vm::Vm::new_root_obj_err_from_error, crate::vm::verif_vm::err_instance_stub)]
    #[kani::stub(crate::vm::Vm::new_error_from_value, crate::vm::verif_vm::error_from_value_stub)]
    fn c09_new_fiber_wrong_argc_2() {
        new_fiber_wrong_argc_case(2);
    }

    /// (c') resuming a suspended fiber with two arguments.
    #[kani::proof]
    #[kani::unwind(5)]
    #[kani::stub(std::fmt::format, fmt_stub)]
    #[kani::stub(crate::vm::Vm::new_root_obj_err_from_error, crate::vm::verif_vm::err_instance_stub)]
    #[kani::stub(crate::vm::Vm::new_error_from_value, crate::vm::verif_vm::error_from_value_stub)]
    fn c09_resume_with_two_args_rejected() {
        let mut sa = FiberStore::empty();
        let mut sb = FiberStore::empty();
        let mut w = world(&mut sa, &mut sb, 1);
        let (a, b) = (w.a.fiber, w.b.fiber);
        let x: f64 = kani::any();
        let v: f64 = kani::any();
        setup_yield_b(&mut w, x, v);
        a.borrow_mut().stack.pop();
        a.borrow_mut().stack.push(Value::ObjFiber(b));
        a.borrow_mut().stack.push(Value::Number(1.0));
        a.borrow_mut().stack.push(Value::Number(2.0));
        let r = call_fiber_call(&mut w.vm, 2);
        kani::cover!(r.is_err(), "reach");
        assert!(r.is_err(), "resuming with two arguments is an error");
        assert!(vm_fiber(&w.vm) == Some(a) && b.borrow().caller.is_none() && b.borrow().frames.len() == 1, "failed resume leaves the fibers untouched");
        assert!(len(b) == 3 && num(top(b, 1), x), "the suspended fiber's stack is untouched");
        assert!(vm_cache_coherent(&w.vm), "cached state coherent");
        std::mem::forget(r);
        std::mem::forget(w);
    }

    /// (a') the target HAS a caller (it is running, or waiting on a callee): always rejected.
    /// Chain A -> B -> C built by the real load_fiber; C calls itself or the waiting ancestor B.
    fn reentrant_case(target_is_self: bool, with_arg: bool) {
        let mut sa = FiberStore::empty();
        let mut sb = FiberStore::empty();
        let mut sc = FiberStore::empty();
        let mut w = world(&mut sa, &mut sb, 1);
        let (a, b) = (w.a.fiber, w.b.fiber);
        let c = sc.init(code(), 2);
        let x: f64 = kani::any();
        setup_call_b(&mut w, x);
        // B -> C
        b.borrow_mut().stack.push(Value::ObjFiber(c.fiber));
        b.borrow_mut().stack.push(Value::Number(x));
        assert!(w.vm.load_fiber(c.fiber, Some(Value::Number(x))).is_ok(), "set-up: B calls C");
        let target = if target_is_self { c.fiber } else { b };
        let depth_c = len(c.fiber);
        c.fiber.borrow_mut().stack.push(Value::ObjFiber(target));
        let r = if with_arg {
            c.fiber.borrow_mut().stack.push(Value::Number(7.0));
            call_fiber_call(&mut w.vm, 1)
        } else {
            call_fiber_call(&mut w.vm, 0)
        };
        kani::cover!(r.is_err(), "reach");
        assert!(r.is_err(), "calling a fiber that is already running or waiting is an error");
        assert!(vm_fiber(&w.vm) == Some(c.fiber), "the running fiber keeps running");
        assert!(c.fiber.borrow().caller == Some(b), "running fiber's caller intact");
        assert!(b.borrow().caller == Some(a), "waiting fiber's caller intact");
        assert!(a.borrow().caller.is_none(), "root fiber's caller intact");
        assert!(b.borrow().frames.len() == 1 && c.fiber.borrow().frames.len() == 1, "frames intact");
        assert!(len(c.fiber) >= depth_c, "the running fiber's locals are not popped");
        assert!(len(b) == 3 && len(a) == 3, "the waiting fibers' stacks are untouched");
        assert!(vm_cache_coherent(&w.vm), "cached state coherent");
        std::mem::forget(r);
        std::mem::forget(w);
    }
    #[kani::proof]
    #[kani::unwind(5)]
    #[kani::stub(std::fmt::format, fmt_stub)]
    #[kani::stub(crate::vm::Vm::new_root_obj_err_from_error, crate::vm::verif_vm::err_instance_stub)]
    #[kani::stub(crate::vm::Vm::new_error_from_value, crate::vm::verif_vm::error_from_value_stub)]
    fn c09_reentrant_call_rejected_self_with_arg() {
        reentrant_case(true, true);
    }
    #[kani::proof]
    #[kani::unwind(5)]
    #[kani::stub(std::fmt::format, fmt_stub)]
    #[kani::stub(crate::vm::Vm::new_root_obj_err_from_error, crate::vm::verif_vm::err_instance_stub)]
    #[kani::stub(crate::vm::Vm::new_error_from_value, crate::vm::verif_vm::error_from_value_stub)]
    fn c09_reentrant_call_rejected_self_without_arg() {
        reentrant_case(true, false);
    }
    #[kani::proof]
    #[kani::unwind(5)]
    #[kani::stub(std::fmt::format, fmt_stub)]
    #[kani::stub(crate::vm::Vm::new_root_obj_err_from_error, crate::vm::verif_vm::err_instance_stub)]
    #[kani::stub(crate::vm::Vm::new_error_from_value, crate::vm::verif_vm::error_from_value_stub)]
    fn c09_reentrant_call_rejected_ancestor_with_arg() {
        reentrant_case(false, true);
    }
    #[kani::proof]
    #[kani::unwind(5)]
    #[kani::stub(std::fmt::format, fmt_stub)]
    #[kani::stub(crate::vm::Vm::new_root_obj_err_from_error, crate::vm::verif_vm::err_instance_stub)]
    #[kani::stub(crate::vm::Vm::new_error_from_value, crate::vm::verif_vm::error_from_value_stub)]
    fn c09_reentrant_call_rejected_ancestor_without_arg() {
        reentrant_case(false, false);
    }

    /// (b) yield with no caller (module-level code): an error, nothing switches.
    fn yield_without_caller_case(argc: usize) {
        let mut sa = FiberStore::empty();
        let mut sb = FiberStore::empty();
        let mut w = world(&mut sa, &mut sb, 1);
        let a = w.a.fiber;
        a.borrow_mut().stack.push(Value::Boolean(true));
        let mut i = 0;
        while i < argc {
            a.borrow_mut().stack.push(Value::Number(3.0));
            i += 1;
        }
        let r = call_fiber_yield(&mut w.vm, argc);
        kani::cover!(r.is_err(), "reach");
        assert!(r.is_err(), "yield outside any called fiber (or with two arguments) is an error");
        assert!(vm_fiber(&w.vm) == Some(a), "the running fiber keeps running");
        assert!(a.borrow().caller.is_none() && a.borrow().frames.len() == 1, "links and frames intact");
        assert!(vm_cache_coherent(&w.vm), "cached state coherent");
        std::mem::forget(r);
        std::mem::forget(w);
    }
    #[kani::proof]
    #[kani::unwind(5)]
    #[kani::stub(std::fmt::format, fmt_stub)]
    #[kani::stub(crate::vm::Vm::new_root_obj_err_from_error, crate::vm::verif_vm::err_instance_stub)]
    #[kani::stub(crate::vm::Vm::new_error_from_value, crate::vm::verif_vm::error_from_value_stub)]
    fn c09_yield_without_caller_is_error_with_value() {
        yield_without_caller_case(1);
    }
    #[kani::proof]
    #[kani::unwind(5)]
    #[kani::stub(std::fmt::format, fmt_stub)]
    #[kani::stub(crate::vm::Vm::new_root_obj_err_from_error, crate::vm::verif_vm::err_instance_stub)]
    #[kani::stub(crate::vm::Vm::new_error_from_value, crate::vm::verif_vm::error_from_value_stub)]
    fn c09_yield_without_caller_is_error_without_value() {
        yield_without_caller_case(0);
    }
    #[kani::proof]
    #[kani::unwind(5)]
    #[kani::stub(std::fmt::format, fmt_stub)]
    #[kani::stub(crate::vm::Vm::new_root_obj_err_from_error, crate::vm::verif_vm::err_instance_stub)]
    #[kani::stub(crate::vm::Vm::new_error_from_value, crate::vm::verif_vm::error_from_value_stub)]
    fn c09_yield_with_two_values_is_error() {
        yield_without_caller_case(2);
    }

    /// Twin: must FAIL.
    #[kani::proof]
    #[kani::unwind(5)]
    #[kani::stub(std::fmt::format, fmt_stub)]
    #[kani::stub(crate::vm::Vm::new_root_obj_err_from_error, crate::vm::verif_vm::err_instance_stub)]
    #[kani::stub(crate::vm::Vm::new_error_from_value, crate::vm::verif_vm::error_from_value_stub)]
    fn c09_twin_must_fail() {
        let mut sa = FiberStore::empty();
        let mut sb = FiberStore::empty();
        let mut w = world(&mut sa, &mut sb, 1);
        let x: f64 = kani::any();
        setup_call_b(&mut w, x);
        assert!(false, "twin");
    }
}
