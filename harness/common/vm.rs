
// ---- verif: bare-Vm construction helpers (cfg(kani) only; appended to vm.rs) ---------------------
// `Vm::new()` interprets core.yl and is far out of reach of symbolic execution. Harnesses build the
// interpreter state directly: a Vm whose heap-allocated fields are filled in by hand with exactly
// the objects the step under test touches.
#[cfg(kani)]
#[allow(dead_code)]
pub(crate) mod verif_vm {
    use super::*;
    use crate::memory::verif_mem::leak_gc;

    /// Stands in for `core::print` as the Vm's printer: every function whose address is taken and
    /// whose signature is NativeFn is a candidate target of `call_native`'s indirect call, and the real
    /// printer drags the whole Display machinery for every object kind into the encoding.
    pub(crate) fn noop_native(_vm: &mut Vm, _n: usize) -> Result<Value, Error> {
        Ok(Value::None)
    }

    pub(crate) fn bare_vm() -> Vm {
        Vm {
            ip: ptr::null(),
            active_module: Gc::dangling(),
            active_chunk: Gc::dangling(),
            fiber: None,
            unsafe_fiber: ptr::null_mut(),
            next_string: Gc::dangling(),
            class_store: CoreClassStore::new_empty(),
            chunks: Vec::new(),
            modules: HashMap::with_hasher(BuildPassThroughHasher::default()),
            core_chunks: Vec::new(),
            string_class: None,
            string_store: string_store::ObjStringStore::new(),
            range_cache: Vec::new(),
            module_loader: default_read_module_source,
            printer: noop_native,
            working_class_def: None,
            handling_exception: false,
        }
    }

    /// An empty, self-metaclassed class on a leaked box (never collected, never iterated unless a
    /// harness marks it).
    pub(crate) fn leaked_class() -> Gc<ObjClass> {
        let c = leak_gc(ObjClass {
            name: Gc::dangling(),
            metaclass: Gc::dangling(),
            superclass: None,
            methods: object::new_obj_string_value_map(),
        });
        c
    }

    /// Bare Vm that can intern strings (`new_gc_obj_string` needs `string_class`).
    pub(crate) fn bare_vm_with_strings() -> Vm {
        let mut vm = bare_vm();
        vm.string_class = Some(leaked_class().as_root());
        vm
    }

    pub(crate) struct FiberParts {
        pub(crate) chunk: Gc<Chunk>,
        pub(crate) function: Gc<ObjFunction>,
        pub(crate) closure: Gc<ObjClosure>,
        pub(crate) fiber: Gc<RefCell<ObjFiber>>,
    }

    /// A fiber over a hand-assembled chunk, all on leaked boxes (no collection involved).
    /// `arity` counts the closure slot, as in ObjFunction.
    pub(crate) fn leaked_fiber(code: Vec<u8>, arity: usize) -> FiberParts {
        // built field by field: Chunk::new() would call RandomState::new (a getrandom syscall)
        let chunk = Chunk {
            lines: vec![0; code.len()],
            code,
            constant_map: std::collections::HashMap::with_hasher(crate::verif_stubs::random_state_stub()),
            constants: Vec::new(),
        };
        let chunk = leak_gc(chunk);
        let function = leak_gc(ObjFunction::new(Gc::dangling(), arity, 0, chunk, Gc::dangling()));
        let closure = leak_gc(ObjClosure::new(function, Vec::new(), Gc::dangling()));
        let fiber = leak_gc(RefCell::new(ObjFiber::new(Gc::dangling(), closure)));
        FiberParts { chunk, function, closure, fiber }
    }

    /// Storage for one fiber and the objects it needs, kept in a local of the proof function
    /// (see `verif_mem::Placed`): `let mut sa = FiberStore::empty(); let a = sa.init(code, arity);`.
    /// Must not be moved after `init`.
    pub(crate) struct FiberStore {
        chunk: Option<crate::memory::verif_mem::Placed<Chunk>>,
        function: Option<crate::memory::verif_mem::Placed<ObjFunction>>,
        closure: Option<crate::memory::verif_mem::Placed<ObjClosure>>,
        fiber: Option<crate::memory::verif_mem::Placed<RefCell<ObjFiber>>>,
    }
    impl FiberStore {
        pub(crate) fn empty() -> Self {
            FiberStore { chunk: None, function: None, closure: None, fiber: None }
        }
        pub(crate) fn init(&mut self, code: Vec<u8>, arity: usize) -> FiberParts {
            use crate::memory::verif_mem::Placed;
            self.chunk = Some(Placed::new(Chunk {
                lines: vec![0; code.len()],
                code,
                constant_map: std::collections::HashMap::with_hasher(crate::verif_stubs::random_state_stub()),
                constants: Vec::new(),
            }));
            let chunk = self.chunk.as_mut().unwrap().gc();
            self.function = Some(Placed::new(ObjFunction::new(Gc::dangling(), arity, 0, chunk, Gc::dangling())));
            let function = self.function.as_mut().unwrap().gc();
            self.closure = Some(Placed::new(ObjClosure::new(function, Vec::new(), Gc::dangling())));
            let closure = self.closure.as_mut().unwrap().gc();
            self.fiber = Some(Placed::new(RefCell::new(ObjFiber::new(Gc::dangling(), closure))));
            let fiber = self.fiber.as_mut().unwrap().gc();
            FiberParts { chunk, function, closure, fiber }
        }
    }

    /// Makes `f` the running fiber of `vm`, the way load_fiber leaves things.
    pub(crate) fn activate(vm: &mut Vm, f: &FiberParts) {
        vm.fiber = Some(f.fiber.as_root());
        vm.unsafe_fiber = (*f.fiber).as_ptr();
        vm.load_frame();
    }

    // ---- accessors to private interpreter state, for harness modules living in other files -------
    pub(crate) fn vm_fiber(vm: &Vm) -> Option<Gc<RefCell<ObjFiber>>> {
        vm.fiber.as_ref().map(|r| r.as_gc())
    }
    pub(crate) fn vm_unsafe_fiber(vm: &Vm) -> *mut ObjFiber {
        vm.unsafe_fiber
    }
    pub(crate) fn vm_ip(vm: &Vm) -> *const u8 {
        vm.ip
    }
    pub(crate) fn vm_set_ip(vm: &mut Vm, ip: *const u8) {
        vm.ip = ip;
    }
    pub(crate) fn vm_active_chunk(vm: &Vm) -> Gc<Chunk> {
        vm.active_chunk
    }
    pub(crate) fn vm_call_native(vm: &mut Vm, native: Gc<ObjNative>, argc: usize) -> Result<(), Error> {
        vm.call_native(native, argc)
    }
    pub(crate) fn vm_return_impl(vm: &mut Vm) -> Result<Option<Value>, Error> {
        vm.return_impl()
    }
    pub(crate) fn vm_stack_size(vm: &Vm) -> usize {
        vm.stack_size()
    }
    /// The invariant the optimised build relies on: the raw active-fiber pointer denotes the rooted
    /// fiber, and the cached chunk is that of its top frame. (The cached ip runs ahead of the frame's
    /// saved ip between switches; harnesses assert it explicitly right after a switch.)
    pub(crate) fn vm_cache_coherent(vm: &Vm) -> bool {
        match vm.fiber.as_ref() {
            None => false,
            Some(root) => {
                let gc = root.as_gc();
                let same = vm.unsafe_fiber as *const ObjFiber == (*gc).as_ptr() as *const ObjFiber;
                let f = gc.borrow();
                match f.frames.last() {
                    None => same,
                    Some(fr) => same && vm.active_chunk == fr.closure.function.chunk,
                }
            }
        }
    }

    // ---- stubs for the error-object path ------------------------------------------------------------
    // On a bare Vm there is no class store, and building the error instance (message join, interning,
    // hashbrown insert) plus formatting the uncaught-error text is far heavier than the step under test.
    // The stubs keep the control flow (an Err still comes back to the caller and is asserted on) and drop
    // only the payload construction.
    pub(crate) fn err_instance_stub(_vm: &mut Vm, _error: Error) -> Root<RefCell<ObjInstance>> {
        leak_gc(RefCell::new(ObjInstance::new(Gc::dangling()))).as_root()
    }
    pub(crate) fn error_from_value_stub(_vm: &mut Vm, _value: Value) -> Error {
        Error::new(ErrorKind::RuntimeError)
    }
}
