
// ---- verif: handles on private natives (cfg(kani) only; appended to core.rs) ----------------------
#[cfg(kani)]
#[allow(dead_code)]
pub(crate) mod verif_core {
    use super::*;
    use crate::memory::verif_mem::leak_gc;

    /// `Fiber.call` exactly as the Fiber class registers it (manages its own stack).
    pub(crate) fn fiber_call_native() -> Gc<ObjNative> {
        leak_gc(ObjNative::new(Gc::dangling(), fiber_call as NativeFn, true))
    }
    /// `Fiber.yield` exactly as the Fiber metaclass registers it.
    pub(crate) fn fiber_yield_native() -> Gc<ObjNative> {
        leak_gc(ObjNative::new(Gc::dangling(), fiber_yield as NativeFn, true))
    }
    /// The function pointer itself, for harnesses that keep the ObjNative in a typed local.
    pub(crate) fn fiber_yield_fn() -> NativeFn {
        fiber_yield as NativeFn
    }
    pub(crate) fn call_fiber_call(vm: &mut Vm, num_args: usize) -> Result<Value, Error> {
        fiber_call(vm, num_args)
    }
    pub(crate) fn call_fiber_yield(vm: &mut Vm, num_args: usize) -> Result<Value, Error> {
        fiber_yield(vm, num_args)
    }
    pub(crate) fn call_validate_hash_map_key(key: Value) -> Result<Value, Error> {
        validate_hash_map_key(key)
    }
}
