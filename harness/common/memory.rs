
// ---- verif: shared helpers for harnesses (cfg(kani) only; appended to memory.rs) -----------------
#[cfg(kani)]
#[allow(dead_code)]
pub(crate) mod verif_mem {
    use super::*;

    /// A `Gc<T>` to a leaked, heap-less box: kernel harnesses that only need a valid referent use
    /// this so that no collection (and no marking through unrelated fields) is involved.
    pub(crate) fn leak_gc<T: 'static + GcManaged>(data: T) -> Gc<T> {
        let b = Box::new(GcBox {
            colour: Cell::new(Colour::White),
            num_roots: Cell::new(0),
            _pin: PhantomPinned,
            data,
        });
        let r: &'static mut GcBox<T> = Box::leak(b);
        Gc {
            ptr: unsafe { GcBoxPtr::new_unchecked(r) },
        }
    }

    pub(crate) const WHITE: u8 = 0;
    pub(crate) const GREY: u8 = 1;
    pub(crate) const BLACK: u8 = 2;

    pub(crate) fn colour_of<T: 'static + GcManaged + ?Sized>(gc: &Gc<T>) -> u8 {
        match gc.gc_box().colour.get() {
            Colour::White => WHITE,
            Colour::Grey => GREY,
            Colour::Black => BLACK,
        }
    }

    pub(crate) fn set_colour<T: 'static + GcManaged + ?Sized>(gc: &Gc<T>, c: u8) {
        gc.gc_box().colour.set(match c {
            WHITE => Colour::White,
            GREY => Colour::Grey,
            _ => Colour::Black,
        });
    }

    pub(crate) fn num_roots<T: 'static + GcManaged + ?Sized>(gc: &Gc<T>) -> usize {
        gc.gc_box().num_roots.get()
    }

    /// A `GcBox` by value: harnesses keep it in a local of the proof function and point a `Gc` at it
    /// (`Placed::gc`). Unlike a leaked `Box`, a local is a typed CBMC object, so field accesses through
    /// the `Gc` stay field-sensitive instead of becoming byte-level updates of an untyped heap block
    /// (measured: one stack push on a boxed fiber costs 140k SAT variables, on a placed one far less).
    /// The value must not be moved after `gc()` has been called.
    pub(crate) struct Placed<T: 'static + GcManaged>(GcBox<T>);
    impl<T: 'static + GcManaged> Placed<T> {
        pub(crate) fn new(data: T) -> Self {
            Placed(GcBox {
                colour: Cell::new(Colour::White),
                num_roots: Cell::new(0),
                _pin: PhantomPinned,
                data,
            })
        }
        pub(crate) fn gc(&mut self) -> Gc<T> {
            Gc {
                ptr: unsafe { GcBoxPtr::new_unchecked(&mut self.0 as *mut GcBox<T>) },
            }
        }
        /// The object as a `UniqueRoot` (what `Heap::allocate_unique` hands out: one root handle).
        pub(crate) fn unique_root(&mut self) -> UniqueRoot<T> {
            let u = UniqueRoot {
                ptr: unsafe { GcBoxPtr::new_unchecked(&mut self.0 as *mut GcBox<T>) },
            };
            u.inc_num_roots();
            u
        }
    }

    /// Replaces `Heap::collect_if_required` in harnesses whose subject is not the collector: in the
    /// optimised configuration no collection is due for the few hundred bytes they allocate (asserted),
    /// so the no-op is exactly what the real function does there. Without it every allocation whose
    /// byte count CBMC cannot constant-fold drags a whole mark/sweep over `dyn GcManaged` into the formula.
    pub(crate) fn collect_if_required_stub(h: &mut Heap) {
        assert!(h.bytes_allocated < h.collection_threshold, "verif: no collection is due in this harness");
    }
}
