
// ---- verif: shared stubs (cfg(kani) only; appended to lib.rs in the scratch copy) ---------------
#[cfg(kani)]
#[allow(dead_code)]
pub(crate) mod verif_stubs {
    /// Replaces `std::fmt::format`: message text is never asserted, formatting f64/Value explodes.
    pub(crate) fn fmt_stub(_args: std::fmt::Arguments<'_>) -> String {
        String::new()
    }
    /// Replaces `core::fmt::write`.
    pub(crate) fn fmt_write_stub(
        _o: &mut dyn std::fmt::Write,
        _a: std::fmt::Arguments<'_>,
    ) -> std::fmt::Result {
        Ok(())
    }
    /// Replaces `RandomState::new` (real one performs a getrandom syscall).
    pub(crate) fn random_state_stub() -> std::collections::hash_map::RandomState {
        unsafe {
            std::mem::transmute::<[u64; 2], std::collections::hash_map::RandomState>([0, 0])
        }
    }

    /// Replaces `<Value as GcManaged>::mark`: the real function restricted to the variants the heap
    /// harnesses build (ObjNative leaves and scalars; any arm that reaches an ObjClass drags a hashbrown
    /// iteration per recursion level into the encoding) (cuts the 18-way static recursion through every object kind). The real
    /// `Value::mark` has its own per-variant obligations (C01 H2).
    pub(crate) fn value_mark_stub(v: &crate::value::Value) {
        use crate::memory::GcManaged;
        use crate::value::Value;
        match v {
            Value::ObjNative(inner) => inner.mark(),
            Value::Boolean(_) | Value::Number(_) | Value::None => {}
            _ => panic!("verif: Value variant not modelled by value_mark_stub"),
        }
    }
    /// Replaces `<Value as GcManaged>::blacken` (same restriction).
    pub(crate) fn value_blacken_stub(v: &crate::value::Value) {
        use crate::memory::GcManaged;
        use crate::value::Value;
        match v {
            Value::ObjNative(inner) => inner.blacken(),
            Value::Boolean(_) | Value::Number(_) | Value::None => {}
            _ => panic!("verif: Value variant not modelled by value_blacken_stub"),
        }
    }

    /// Variant of `value_mark_stub` for the map-key harness (keys are tuples).
    pub(crate) fn value_mark_stub_tuple(v: &crate::value::Value) {
        use crate::memory::GcManaged;
        use crate::value::Value;
        match v {
            Value::ObjNative(inner) => inner.mark(),
            Value::ObjTuple(inner) => inner.mark(),
            Value::Boolean(_) | Value::Number(_) | Value::None => {}
            _ => panic!("verif: Value variant not modelled by value_mark_stub_tuple"),
        }
    }
}
