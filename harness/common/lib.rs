
// ---- verif: shared stubs (cfg(kani) only; appended to lib.rs in the scratch copy) ---------------
#[cfg(kani)]
#[allow(dead_code)]
pub(crate) mod verif_stubs {
    /// Replaces `std::fmt::format`: message text is never asserted, formatting f64/Value explodes.
    pub(crate) fn fmt_stub(_args: std::fmt::Arguments<'_>) -> String {
        String::new()
    }
    /// Replaces `core::fmt::write`.
    pub(crate) fn fmt_write_stub(
        _o: &mut dyn std::fmt::Write,
        _a: std::fmt::Arguments<'_>,
    ) -> std::fmt::Result {
        Ok(())
    }
    /// Replaces `RandomState::new` (real one performs a getrandom syscall).
    pub(crate) fn random_state_stub() -> std::collections::hash_map::RandomState {
        unsafe {
            std::mem::transmute::<[u64; 2], std::collections::hash_map::RandomState>([0, 0])
        }
    }
}
