
// ---- verif: shared stubs (cfg(kani) only; appended to lib.rs in the scratch copy) ---------------
#[cfg(kani)]
#[allow(dead_code)]
pub(crate) mod verif_stubs {
    /// Replaces `std::fmt::format`: message text is never asserted, formatting f64/Value explodes.
    pub(crate) fn fmt_stub(_args: std::fmt::Arguments<'_>) -> String {
        String::new()
    }
    /// Replaces `core::fmt::write`.
    pub(crate) fn fmt_write_stub(
        _o: &mut dyn std::fmt::Write,
        _a: std::fmt::Arguments<'_>,
    ) -> std::fmt::Result {
        Ok(())
    }
    /// Replaces `RandomState::new` (real one performs a getrandom syscall).
    pub(crate) fn random_state_stub() -> std::collections::hash_map::RandomState {
        unsafe {
            std::mem::transmute::<[u64; 2], std::collections::hash_map::RandomState>([0, 0])
        }
    }

    /// Replaces `<Value as GcManaged>::mark`: the real function restricted to the variants the heap
    /// harnesses build (ObjNative leaves and scalars; any arm that reaches an ObjClass drags a hashbrown
    /// iteration per recursion level into the encoding) (cuts the 18-way static recursion through every object kind). The real
    /// `Value::mark` has its own per-variant obligations (C01 H2).
    pub(crate) fn value_mark_stub(v: &crate::value::Value) {
        use crate::memory::GcManaged;
        use crate::value::Value;
        match v {
            Value::ObjNative(inner) => inner.mark(),
            Value::Boolean(_) | Value::Number(_) | Value::None => {}
            _ => panic!("verif: Value variant not modelled by value_mark_stub"),
        }
    }
    /// Replaces `<Value as GcManaged>::blacken` (same restriction).
    pub(crate) fn value_blacken_stub(v: &crate::value::Value) {
        use crate::memory::GcManaged;
        use crate::value::Value;
        match v {
            Value::ObjNative(inner) => inner.blacken(),
            Value::Boolean(_) | Value::Number(_) | Value::None => {}
            _ => panic!("verif: Value variant not modelled by value_blacken_stub"),
        }
    }

    /// Variant of `value_mark_stub` for the map-key harnesses (keys are tuples or ranges).
    pub(crate) fn value_mark_stub_tuple(v: &crate::value::Value) {
        use crate::memory::GcManaged;
        use crate::value::Value;
        match v {
            Value::ObjNative(inner) => inner.mark(),
            Value::ObjTuple(inner) => inner.mark(),
            Value::ObjRange(inner) => inner.mark(),
            Value::Boolean(_) | Value::Number(_) | Value::None => {}
            _ => panic!("verif: Value variant not modelled by value_mark_stub_tuple"),
        }
    }
}

// ---- verif: reference model standing in for std::collections::HashMap (cfg(kani) only) ------------
// std's HashMap (hashbrown: SIMD control-byte groups) is not encodable under Kani/CBMC within reach
// here: one iteration of a one-entry table did not finish in 25 minutes. In harness groups that set
// "model_hashmap" the check rewrites `use std::collections::HashMap;` in memory.rs, object.rs and vm.rs
// to this type under cfg(kani). It implements the documented contract of the subset of the API that
// yarel uses, as an association list: a key denotes the entry whose key has the SAME HASH (through the
// map's BuildHasher) AND is `==` - exactly the pairs a hash table is guaranteed to identify - so an
// incoherent Hash/Eq pair is visible as a missed lookup, as it would be in the real table. Iteration is
// in insertion order (the real order is unspecified; harnesses never assert an order).
// The entries live INLINE in a fixed array (capacity CAP): a Vec buffer is an untyped heap block to CBMC,
// and a Value read back from it has an unknown discriminant, which drags every arm of Value::hash /
// Value::eq (the recursive tuple arms included) into the formula. Exceeding CAP is a harness-bound
// error ("verif: ..." panics are classified as inconclusive by the check, never as a violation).
// std::collections::HashMap itself is trusted and outside every claim that uses this model.
#[cfg(kani)]
#[allow(dead_code)]
pub(crate) mod verif_hashmap {
    use std::borrow::Borrow;
    use std::hash::{BuildHasher, Hash, Hasher};

    pub const CAP: usize = 4;

    #[derive(Clone, Debug)]
    pub struct HashMap<K, V, S = std::collections::hash_map::RandomState> {
        pub(crate) entries: [Option<(K, V)>; CAP],
        pub(crate) len: usize,
        hash_builder: S,
    }

    fn hash_of<Q: Hash + ?Sized, S: BuildHasher>(s: &S, k: &Q) -> u64 {
        let mut h = s.build_hasher();
        k.hash(&mut h);
        h.finish()
    }

    impl<K, V, S> HashMap<K, V, S> {
        pub fn with_hasher(hash_builder: S) -> Self {
            HashMap { entries: [None, None, None, None], len: 0, hash_builder }
        }
        pub fn len(&self) -> usize {
            self.len
        }
        pub fn is_empty(&self) -> bool {
            self.len == 0
        }
        pub fn clear(&mut self) {
            let mut i = 0;
            while i < CAP {
                self.entries[i] = None;
                i += 1;
            }
            self.len = 0;
        }
        fn entry_at(&self, i: usize) -> &(K, V) {
            match &self.entries[i] {
                Some(e) => e,
                None => panic!("verif: model map slot below len is empty"),
            }
        }
        fn remove_at(&mut self, i: usize) -> (K, V) {
            let out = self.entries[i].take();
            let mut j = i;
            while j + 1 < self.len {
                self.entries[j] = self.entries[j + 1].take();
                j += 1;
            }
            self.len -= 1;
            match out {
                Some(e) => e,
                None => panic!("verif: model map slot below len is empty"),
            }
        }
        pub fn iter(&self) -> Iter<'_, K, V, S> {
            Iter { map: self, pos: 0 }
        }
        pub fn keys(&self) -> Keys<'_, K, V, S> {
            Keys { inner: self.iter() }
        }
        pub fn values(&self) -> Values<'_, K, V, S> {
            Values { inner: self.iter() }
        }
        pub fn retain<F: FnMut(&K, &mut V) -> bool>(&mut self, mut f: F) {
            let mut i = 0;
            while i < self.len {
                let keep = match &mut self.entries[i] {
                    Some(e) => f(&e.0, &mut e.1),
                    None => panic!("verif: model map slot below len is empty"),
                };
                if keep {
                    i += 1;
                } else {
                    let _ = self.remove_at(i);
                }
            }
        }
    }

    impl<K: Eq + Hash, V, S: BuildHasher> HashMap<K, V, S> {
        fn find<Q: Hash + Eq + ?Sized>(&self, k: &Q) -> Option<usize>
        where
            K: Borrow<Q>,
        {
            let h = hash_of(&self.hash_builder, k);
            let mut i = 0;
            while i < self.len {
                let ek: &Q = self.entry_at(i).0.borrow();
                if hash_of(&self.hash_builder, ek) == h && ek == k {
                    return Some(i);
                }
                i += 1;
            }
            None
        }
        pub fn insert(&mut self, k: K, v: V) -> Option<V> {
            match self.find(&k) {
                Some(i) => match &mut self.entries[i] {
                    Some(e) => Some(std::mem::replace(&mut e.1, v)),
                    None => panic!("verif: model map slot below len is empty"),
                },
                None => {
                    if self.len >= CAP {
                        panic!("verif: model map capacity exceeded (harness bound)");
                    }
                    self.entries[self.len] = Some((k, v));
                    self.len += 1;
                    None
                }
            }
        }
        pub fn get<Q: Hash + Eq + ?Sized>(&self, k: &Q) -> Option<&V>
        where
            K: Borrow<Q>,
        {
            match self.find(k) {
                Some(i) => Some(&self.entry_at(i).1),
                None => None,
            }
        }
        pub fn get_mut<Q: Hash + Eq + ?Sized>(&mut self, k: &Q) -> Option<&mut V>
        where
            K: Borrow<Q>,
        {
            match self.find(k) {
                Some(i) => match &mut self.entries[i] {
                    Some(e) => Some(&mut e.1),
                    None => None,
                },
                None => None,
            }
        }
        pub fn contains_key<Q: Hash + Eq + ?Sized>(&self, k: &Q) -> bool
        where
            K: Borrow<Q>,
        {
            self.find(k).is_some()
        }
        pub fn remove<Q: Hash + Eq + ?Sized>(&mut self, k: &Q) -> Option<V>
        where
            K: Borrow<Q>,
        {
            match self.find(k) {
                Some(i) => Some(self.remove_at(i).1),
                None => None,
            }
        }
    }

    impl<K: Eq + Hash, V: PartialEq, S: BuildHasher> PartialEq for HashMap<K, V, S> {
        fn eq(&self, other: &Self) -> bool {
            if self.len() != other.len() {
                return false;
            }
            let mut i = 0;
            while i < self.len {
                let e = self.entry_at(i);
                match other.get(&e.0) {
                    Some(v) if *v == e.1 => {}
                    _ => return false,
                }
                i += 1;
            }
            true
        }
    }

    pub struct Iter<'a, K, V, S> {
        map: &'a HashMap<K, V, S>,
        pos: usize,
    }
    impl<'a, K, V, S> Iterator for Iter<'a, K, V, S> {
        type Item = (&'a K, &'a V);
        fn next(&mut self) -> Option<Self::Item> {
            if self.pos >= self.map.len {
                return None;
            }
            let e = self.map.entry_at(self.pos);
            self.pos += 1;
            Some((&e.0, &e.1))
        }
    }
    pub struct Keys<'a, K, V, S> {
        inner: Iter<'a, K, V, S>,
    }
    impl<'a, K, V, S> Iterator for Keys<'a, K, V, S> {
        type Item = &'a K;
        fn next(&mut self) -> Option<Self::Item> {
            self.inner.next().map(|e| e.0)
        }
    }
    pub struct Values<'a, K, V, S> {
        inner: Iter<'a, K, V, S>,
    }
    impl<'a, K, V, S> Iterator for Values<'a, K, V, S> {
        type Item = &'a V;
        fn next(&mut self) -> Option<Self::Item> {
            self.inner.next().map(|e| e.1)
        }
    }
    impl<'a, K, V, S> IntoIterator for &'a HashMap<K, V, S> {
        type Item = (&'a K, &'a V);
        type IntoIter = Iter<'a, K, V, S>;
        fn into_iter(self) -> Self::IntoIter {
            self.iter()
        }
    }
}
