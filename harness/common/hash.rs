
// ---- verif: cuts for the recursive tuple arm of Value::hash (cfg(kani) only; appended to hash.rs) ----
// `Value::hash` and `Gc<ObjTuple>::hash` are generic over the Hasher and cannot be stubbed. Both create
// their per-tuple hasher with `PassThroughHasher::default()`, which is otherwise only called by
// `BuildPassThroughHasher::build_hasher`. Harnesses whose keys are never tuples stub `build_hasher` by a
// direct construction (identical result) and `default()` by a "verif:" panic: the tuple arms are then cut
// at their first statement instead of being unwound to the recursion limit for every key whose
// discriminant CBMC cannot fold. Reaching the cut is a model failure (inconclusive), never a pass.
#[cfg(kani)]
#[allow(dead_code)]
pub(crate) mod verif_hash {
    use super::*;
    pub(crate) use std::default::Default as DefaultT;
    pub(crate) use std::hash::BuildHasher as BuildHasherT;

    pub(crate) fn build_hasher_direct(_b: &BuildPassThroughHasher) -> PassThroughHasher {
        PassThroughHasher { hash: 0 }
    }
    pub(crate) fn tuple_hasher_not_modelled() -> PassThroughHasher {
        panic!("verif: tuple keys are not modelled in this harness")
    }
}
