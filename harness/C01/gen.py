"""C01-H2: edge completeness harnesses, generated from the CURRENT struct/enum definitions.

generate(src_dir) parses object.rs, value.rs, chunk.rs and stack.rs, lists every field / enum payload
whose type can hold a reference to a collected object, and emits one Kani harness per such edge from
the template table below. An edge that is in the source but in neither the template table nor the
exemption table is returned as "unencoded" (the check then ends INCONCLUSIVE): a new reference-bearing
field cannot slip through unnoticed. Templates whose struct/field no longer exists are skipped.
"""
import os
import re

REF_TYPES = ("Gc<", "Value", "CallFrame", "Stack<", "ObjUpvalueState")

# struct.field -> reason.  Targets that are rooted for the interpreter's lifetime by construction
# (stated in DESIGN.md C01, not proved): interned strings, the classes of built-in kinds (rooted in
# CoreClassStore / string_class), modules (rooted in Vm.modules).
EXEMPT = {
    "ObjString.class": "core class (rooted in Vm.string_class)",
    "ObjStringIter.class": "core class",
    "ObjStringIter.iterable": "interned string (rooted in the intern table for the interpreter's lifetime)",
    "ObjFunction.name": "interned string",
    "ObjFunction.module_path": "interned string",
    "ObjNative.name": "interned string",
    "ObjClosure.module": "module (rooted in Vm.modules)",
    "ObjClass.name": "interned string",
    "ObjVec.class": "core class",
    "ObjVecIter.class": "core class",
    "ObjRange.class": "core class",
    "ObjRangeIter.class": "core class",
    "ObjHashMap.class": "core class",
    "ObjTuple.class": "core class",
    "ObjTupleIter.class": "core class",
    "ObjModule.class": "core class",
    "ObjModule.path": "interned string",
    "ObjFiber.class": "core class",
    "Chunk.constant_map": "keys are exactly the values also held in Chunk.constants (add_constant inserts into both)",
    "Value.ObjString": "interned string",
    "Value.ObjModule": "module (rooted in Vm.modules)",
}

# struct.field -> reason. Edges that exist, are NOT exempt, and cannot be encoded with this technique here.
# (Empty since the hashbrown tables are encoded through the association-list reference model of
# harness/common/lib.rs - group "edges-tables", model_hashmap - see DESIGN.md 2.10.)
NOT_ENCODABLE = {}

PREAMBLE = r'''
// ---- verif C01-H2: GENERATED edge-completeness harnesses (appended to object.rs) -----------------
// For every reference-bearing field: build the owner with a WHITE leaf behind that edge and GREY
// referents everywhere else (a grey box stops the mark recursion at once), call the owner's real
// `GcManaged::mark`, assert the leaf is no longer white.
#[cfg(kani)]
mod verif_c01_edges {
    use super::*;
    use crate::memory::verif_mem::{colour_of, set_colour, Placed, GREY, WHITE};

    /// A `Gc<T>` to an object kept in a typed static (one small pool per expansion site): unlike a leaked
    /// Box, a static is a typed CBMC object, so a pointer stored in it keeps its identity and the colour
    /// test at the head of `GcBox::mark` stays a constant - a pre-greyed class is then really skipped
    /// instead of having its (hashbrown) method table iterated symbolically.
    macro_rules! typed_gc {
        ($t:ty, $e:expr) => {{
            static mut SLOTS: [Option<Placed<$t>>; 4] = [None, None, None, None];
            static mut N: usize = 0;
            let v = $e;
            unsafe {
                let i = N;
                N += 1;
                SLOTS[i] = Some(Placed::new(v));
                SLOTS[i].as_mut().unwrap().gc()
            }
        }};
    }
    use crate::memory::Root;
    use crate::verif_stubs::random_state_stub;

    fn dummy_native(_vm: &mut Vm, _n: usize) -> Result<Value, Error> {
        Ok(Value::None)
    }
    fn grey<T: 'static + GcManaged>(g: Gc<T>) -> Gc<T> {
        set_colour(&g, GREY);
        g
    }
    fn w_string() -> Gc<ObjString> {
        typed_gc!(ObjString, ObjString::new(Gc::dangling(), "x", 1))
    }
    fn w_native() -> Gc<ObjNative> {
        typed_gc!(ObjNative, ObjNative::new(Gc::dangling(), dummy_native, false))
    }
    fn w_class() -> Gc<ObjClass> {
        let c = typed_gc!(ObjClass, ObjClass {
            name: Gc::dangling(),
            metaclass: Gc::dangling(),
            superclass: None,
            methods: new_obj_string_value_map(),
        });
        // self-metaclassed, like the base metaclass
        let cc = c;
        unsafe {
            let p = &*c as *const ObjClass as *mut ObjClass;
            (*p).metaclass = cc;
        }
        c
    }
    fn g_class() -> Gc<ObjClass> {
        grey(w_class())
    }
    fn w_chunk() -> Gc<Chunk> {
        typed_gc!(Chunk, Chunk {
            code: vec![0u8, 0u8],
            lines: vec![1, 1],
            constant_map: std::collections::HashMap::with_hasher(random_state_stub()),
            constants: Vec::new(),
        })
    }
    fn w_function() -> Gc<ObjFunction> {
        typed_gc!(ObjFunction, ObjFunction::new(grey(w_string()), 1, 0, grey(w_chunk()), grey(w_string())))
    }
    fn w_closure() -> Gc<ObjClosure> {
        typed_gc!(ObjClosure, ObjClosure::new(grey(w_function()), Vec::new(), Gc::dangling()))
    }
    fn w_upvalue() -> Gc<RefCell<ObjUpvalue>> {
        typed_gc!(RefCell<ObjUpvalue>, RefCell::new(ObjUpvalue { data: ObjUpvalueState::Closed(Value::None), next: None }))
    }
    fn w_vec() -> Gc<RefCell<ObjVec>> {
        typed_gc!(RefCell<ObjVec>, RefCell::new(ObjVec::new(g_class())))
    }
    fn w_tuple() -> Gc<ObjTuple> {
        typed_gc!(ObjTuple, ObjTuple::new(g_class(), Vec::new()))
    }
    fn w_range() -> Gc<ObjRange> {
        typed_gc!(ObjRange, ObjRange::new(g_class(), 1, 2))
    }
    /// The universal Value leaf: an ObjNative (its own mark is empty and it references no class).
    fn leaf_value() -> (Value, Gc<ObjNative>) {
        let n = w_native();
        (Value::ObjNative(n), n)
    }
    fn white<T: 'static + GcManaged>(g: &Gc<T>) -> bool {
        colour_of(g) == WHITE
    }
    // Recorders standing in for `<HashMap<K, V, S> as GcManaged>::mark` in the map-owner harnesses.
    static mut MAP_MARKED: *const u8 = std::ptr::null();
    fn str_map_mark_recorder(m: &HashMap<Gc<ObjString>, Value, crate::hash::BuildPassThroughHasher>) {
        unsafe { MAP_MARKED = m as *const _ as *const u8; }
    }
    fn val_map_mark_recorder(m: &HashMap<Value, Value, crate::hash::BuildPassThroughHasher>) {
        unsafe { MAP_MARKED = m as *const _ as *const u8; }
    }
    fn map_marked<T>(m: &T) -> bool {
        unsafe { MAP_MARKED == m as *const T as *const u8 }
    }
'''

# ---- templates: name -> (requires [Struct.field or Enum.Variant], needs_value_stub, body) ---------
# Bodies use `leaf` for the white object and must end with the assertion.
T = {}


def t(name, requires, body, stub=True, unwind=4, group="edges", note=""):
    T[name] = {"requires": requires, "body": body, "stub": stub, "unwind": unwind, "group": group, "note": note}


t("edge_upvalue_closed_value", ["ObjUpvalue.data", "ObjUpvalueState.Closed"], '''
        let (v, leaf) = leaf_value();
        let owner = ObjUpvalue { data: ObjUpvalueState::Closed(v), next: None };
        kani::cover!(white(&leaf), "reach");
        owner.mark();
        assert!(!white(&leaf), "closed upvalue keeps its captured value alive");
''')
t("edge_upvalue_next", ["ObjUpvalue.next"], '''
        let leaf = w_upvalue();
        let owner = ObjUpvalue { data: ObjUpvalueState::Closed(Value::None), next: Some(leaf) };
        kani::cover!(white(&leaf), "reach");
        owner.mark();
        assert!(!white(&leaf), "upvalue keeps the next open upvalue alive");
''')
t("edge_function_chunk", ["ObjFunction.chunk"], '''
        let leaf = w_chunk();
        let owner = ObjFunction::new(grey(w_string()), 1, 0, leaf, grey(w_string()));
        kani::cover!(white(&leaf), "reach");
        owner.mark();
        assert!(!white(&leaf), "function keeps its code alive");
''')
t("edge_closure_function", ["ObjClosure.function"], '''
        let leaf = w_function();
        let owner = ObjClosure::new(leaf, Vec::new(), Gc::dangling());
        kani::cover!(white(&leaf), "reach");
        owner.mark();
        assert!(!white(&leaf), "closure keeps its function alive");
        std::mem::forget(owner);
''')
t("edge_closure_upvalues", ["ObjClosure.upvalues"], '''
        let leaf = w_upvalue();
        let other = grey(w_upvalue());
        let idx: usize = kani::any();
        kani::assume(idx < 2);
        let ups = if idx == 0 { vec![leaf, other] } else { vec![other, leaf] };
        let owner = ObjClosure::new(grey(w_function()), ups, Gc::dangling());
        kani::cover!(idx == 1, "reach");
        owner.mark();
        assert!(!white(&leaf), "closure keeps every captured variable alive");
        std::mem::forget(owner);
''')
t("edge_class_metaclass", ["ObjClass.metaclass"], '''
        let leaf = w_class();
        let owner = ObjClass { name: Gc::dangling(), metaclass: leaf, superclass: None, methods: new_obj_string_value_map() };
        kani::cover!(white(&leaf), "reach");
        owner.mark();
        assert!(!white(&leaf), "class keeps its metaclass alive");
        std::mem::forget(owner);
''', unwind=3, group="edges-maps")
t("edge_class_superclass", ["ObjClass.superclass"], '''
        let leaf = w_class();
        let owner = ObjClass { name: Gc::dangling(), metaclass: g_class(), superclass: Some(leaf), methods: new_obj_string_value_map() };
        kani::cover!(white(&leaf), "reach");
        owner.mark();
        assert!(!white(&leaf), "class keeps its superclass alive");
        std::mem::forget(owner);
''', unwind=3, group="edges-maps")
t("edge_instance_class", ["ObjInstance.class"], '''
        let leaf = w_class();
        let owner = ObjInstance::new(leaf);
        kani::cover!(white(&leaf), "reach");
        owner.mark();
        assert!(!white(&leaf), "instance keeps its class alive");
        std::mem::forget(owner);
''', unwind=3, group="edges-maps")
t("edge_bound_closure_receiver", ["ObjBoundMethod.receiver"], '''
        let (v, leaf) = leaf_value();
        let owner = ObjBoundMethod::new(v, grey(w_closure()));
        kani::cover!(white(&leaf), "reach");
        owner.mark();
        assert!(!white(&leaf), "bound method keeps its receiver alive");
''')
t("edge_bound_closure_method", ["ObjBoundMethod.method"], '''
        let leaf = w_closure();
        let owner = ObjBoundMethod::new(Value::None, leaf);
        kani::cover!(white(&leaf), "reach");
        owner.mark();
        assert!(!white(&leaf), "bound method keeps its function alive");
''')
t("edge_bound_native_method", ["ObjBoundMethod.method"], '''
        let leaf = w_native();
        let owner = ObjBoundMethod::new(Value::None, leaf);
        kani::cover!(white(&leaf), "reach");
        owner.mark();
        assert!(!white(&leaf), "bound native keeps its function alive");
''')
t("edge_vec_elements", ["ObjVec.elements"], '''
        let (v, leaf) = leaf_value();
        let idx: usize = kani::any();
        kani::assume(idx < 2);
        let elems = if idx == 0 { vec![v, Value::None] } else { vec![Value::Number(1.0), v] };
        let owner = ObjVec::with_elements(g_class(), elems);
        kani::cover!(idx == 1, "reach");
        owner.mark();
        assert!(!white(&leaf), "vector keeps every element alive");
        std::mem::forget(owner);
''')
t("edge_vec_iter_iterable", ["ObjVecIter.iterable"], '''
        let leaf = w_vec();
        let owner = ObjVecIter::new(g_class(), leaf);
        kani::cover!(white(&leaf), "reach");
        owner.mark();
        assert!(!white(&leaf), "vector iterator keeps its vector alive");
''')
t("edge_range_iter_iterable", ["ObjRangeIter.iterable"], '''
        let leaf = w_range();
        let owner = ObjRangeIter::new(g_class(), leaf);
        kani::cover!(white(&leaf), "reach");
        owner.mark();
        assert!(!white(&leaf), "range iterator keeps its range alive");
''')
t("edge_tuple_elements", ["ObjTuple.elements"], '''
        let (v, leaf) = leaf_value();
        let idx: usize = kani::any();
        kani::assume(idx < 2);
        let elems = if idx == 0 { vec![v, Value::None] } else { vec![Value::Number(1.0), v] };
        let owner = ObjTuple::new(g_class(), elems);
        kani::cover!(idx == 1, "reach");
        owner.mark();
        assert!(!white(&leaf), "tuple keeps every element alive");
        std::mem::forget(owner);
''')
t("edge_tuple_iter_iterable", ["ObjTupleIter.iterable"], '''
        let leaf = w_tuple();
        let owner = ObjTupleIter::new(g_class(), leaf);
        kani::cover!(white(&leaf), "reach");
        owner.mark();
        assert!(!white(&leaf), "tuple iterator keeps its tuple alive");
''')
t("edge_call_frame_closure", ["CallFrame.closure"], '''
        let leaf = w_closure();
        let owner = CallFrame { closure: leaf, ip: std::ptr::null(), slot_base: 0 };
        kani::cover!(white(&leaf), "reach");
        owner.mark();
        assert!(!white(&leaf), "call frame keeps its closure alive");
''')
t("edge_chunk_constants", ["Chunk.constants"], '''
        let (v, leaf) = leaf_value();
        let idx: usize = kani::any();
        kani::assume(idx < 2);
        let consts = if idx == 0 { vec![v, Value::None] } else { vec![Value::Number(1.0), v] };
        let owner = Chunk { code: Vec::new(), lines: Vec::new(), constant_map: std::collections::HashMap::with_hasher(random_state_stub()), constants: consts };
        kani::cover!(idx == 1, "reach");
        owner.mark();
        assert!(!white(&leaf), "chunk keeps its constants alive");
        std::mem::forget(owner);
''')
t("edge_stack_slots", ["Stack.stack"], '''
        let (v, leaf) = leaf_value();
        let mut owner: crate::stack::Stack<Value, 4> = crate::stack::Stack::new();
        let idx: usize = kani::any();
        kani::assume(idx < 3);
        let mut i = 0;
        while i < 3 {
            owner.push(if i == idx { v } else { Value::Number(i as f64) });
            i += 1;
        }
        kani::cover!(idx == 2, "reach");
        owner.mark();
        assert!(!white(&leaf), "value stack keeps every live slot alive");
        std::mem::forget(owner);
''', unwind=5)

# Owners of a hash table (run with std's HashMap replaced by the reference model: group "edges-tables").
# Two entries, the white leaf at a symbolic position; for ObjHashMap the leaf is a VALUE in one harness
# and a KEY (a tuple, hashable) in the other.
STR_TABLE = '''
        let (v, leaf) = leaf_value();
        let idx: usize = kani::any();
        kani::assume(idx < 2);
        let (k0, k1) = (grey(typed_gc!(ObjString, ObjString::new(Gc::dangling(), "a", 1))), grey(typed_gc!(ObjString, ObjString::new(Gc::dangling(), "b", 2))));
        let mut table = new_obj_string_value_map();
        table.insert(k0, if idx == 0 { v } else { Value::None });
        table.insert(k1, if idx == 1 { v } else { Value::Number(1.0) });
        assert!(table.len() == 2, "set-up: two entries");
'''
t("edge_class_methods", ["ObjClass.methods"], STR_TABLE + '''
        let owner = ObjClass { name: Gc::dangling(), metaclass: g_class(), superclass: None, methods: table };
        kani::cover!(idx == 1, "reach");
        owner.mark();
        assert!(!white(&leaf), "class keeps every method value alive");
        std::mem::forget(owner);
''', unwind=4, group="edges-tables")
t("edge_instance_fields", ["ObjInstance.fields"], STR_TABLE + '''
        let mut owner = ObjInstance::new(g_class());
        owner.fields = table;
        kani::cover!(idx == 1, "reach");
        owner.mark();
        assert!(!white(&leaf), "instance keeps every field value alive");
        std::mem::forget(owner);
''', unwind=4, group="edges-tables")
t("edge_module_attributes", ["ObjModule.attributes"], STR_TABLE + '''
        let mut owner = ObjModule::new(g_class(), grey(w_string()));
        owner.attributes = table;
        kani::cover!(idx == 1, "reach");
        owner.mark();
        assert!(!white(&leaf), "module keeps every global value alive");
        std::mem::forget(owner);
''', unwind=4, group="edges-tables")
t("edge_hashmap_values", ["ObjHashMap.elements"], '''
        let (v, leaf) = leaf_value();
        let idx: usize = kani::any();
        kani::assume(idx < 2);
        let mut owner = ObjHashMap::new(g_class());
        owner.elements.insert(Value::Number(1.0), if idx == 0 { v } else { Value::None });
        owner.elements.insert(Value::Boolean(true), if idx == 1 { v } else { Value::None });
        assert!(owner.elements.len() == 2, "set-up: two entries");
        kani::cover!(idx == 1, "reach");
        owner.mark();
        assert!(!white(&leaf), "map keeps every value alive");
        std::mem::forget(owner);
''', unwind=4, group="edges-tables")
# keys: the kind of each key is concrete (a symbolic kind drags every arm of Value::hash / Value::eq,
# including the recursive ones, into the formula), the leaf's position is one harness each
for pos in (0, 1):
    t("edge_hashmap_keys_%s" % ("first", "second")[pos], ["ObjHashMap.elements"], '''
        let leaf = w_range();
        let mut owner = ObjHashMap::new(g_class());
        owner.elements.insert(%s, Value::None);
        owner.elements.insert(%s, Value::Number(2.0));
        assert!(owner.elements.len() == 2, "set-up: two entries");
        kani::cover!(white(&leaf), "reach");
        owner.mark();
        assert!(!white(&leaf), "map keeps every KEY alive (an object used only as a key is reachable through the map)");
        std::mem::forget(owner);
''' % (("Value::ObjRange(leaf)", "Value::Boolean(true)") if pos == 0 else ("Value::Boolean(true)", "Value::ObjRange(leaf)")), stub="tuple", unwind=4, group="edges-tables")

# ObjFiber edges (need STACK_MAX = 16)
FIBER_SETUP = '''
        let mut fstore = crate::vm::verif_vm::FiberStore::empty();
        let parts = fstore.init(vec![0u8, 0u8], 1);
        set_colour(&parts.closure, GREY);
        let fiber = parts.fiber;
'''
t("edge_fiber_stack", ["ObjFiber.stack"], FIBER_SETUP + '''
        let (v, leaf) = leaf_value();
        let idx: usize = kani::any();
        kani::assume(idx < 2);
        fiber.borrow_mut().stack.push(if idx == 0 { v } else { Value::None });
        fiber.borrow_mut().stack.push(if idx == 1 { v } else { Value::None });
        kani::cover!(idx == 1, "reach");
        fiber.borrow().mark();
        assert!(!white(&leaf), "fiber keeps its value stack alive");
''', unwind=5, group="edges-fiber")
t("edge_fiber_frames", ["ObjFiber.frames"], FIBER_SETUP + '''
        let leaf = w_closure();
        fiber.borrow_mut().frames.push(CallFrame { closure: leaf, ip: std::ptr::null(), slot_base: 0 });
        kani::cover!(white(&leaf), "reach");
        fiber.borrow().mark();
        assert!(!white(&leaf), "fiber keeps the closures of its active calls alive");
''', unwind=5, group="edges-fiber")
t("edge_fiber_open_upvalues", ["ObjFiber.open_upvalues"], FIBER_SETUP + '''
        let leaf = w_upvalue();
        fiber.borrow_mut().open_upvalues = Some(leaf);
        kani::cover!(white(&leaf), "reach");
        fiber.borrow().mark();
        assert!(!white(&leaf), "fiber keeps its open upvalues alive");
''', unwind=5, group="edges-fiber")
t("edge_fiber_caller", ["ObjFiber.caller"], FIBER_SETUP + '''
        let mut ostore = crate::vm::verif_vm::FiberStore::empty();
        let other = ostore.init(vec![0u8, 0u8], 1);
        set_colour(&other.closure, GREY);
        let leaf = other.fiber;
        fiber.borrow_mut().caller = Some(leaf);
        kani::cover!(white(&leaf), "reach");
        fiber.borrow().mark();
        assert!(!white(&leaf), "fiber keeps its caller alive");
''', unwind=5, group="edges-fiber")
t("edge_fiber_return_value", ["ObjFiber.return_value"], FIBER_SETUP + '''
        let (v, leaf) = leaf_value();
        fiber.borrow_mut().return_value = v;
        kani::cover!(white(&leaf), "reach");
        fiber.borrow().mark();
        assert!(!white(&leaf), "fiber keeps a pending return value alive");
''', unwind=5, group="edges-fiber")

# generic containers and handles
t("edge_generic_vec", [], '''
        let leaf = w_upvalue();
        let other = grey(w_upvalue());
        let idx: usize = kani::any();
        kani::assume(idx < 2);
        let owner: Vec<Gc<RefCell<ObjUpvalue>>> = if idx == 0 { vec![leaf, other] } else { vec![other, leaf] };
        kani::cover!(idx == 1, "reach");
        owner.mark();
        assert!(!white(&leaf), "Vec<T> marks every element");
        std::mem::forget(owner);
''')
t("edge_generic_gcbox_mark", [], '''
        let leaf = w_upvalue();
        let owner = typed_gc!(RefCell<ObjUpvalue>, RefCell::new(ObjUpvalue { data: ObjUpvalueState::Closed(Value::None), next: Some(leaf) }));
        kani::cover!(white(&owner), "reach");
        owner.mark();
        assert!(colour_of(&owner) == GREY, "marking a white box greys it");
        assert!(!white(&leaf), "marking a white box marks its contents");
        // a grey box is not traversed again (this is what bounds the recursion on cycles)
        let leaf2 = w_upvalue();
        owner.borrow_mut().next = Some(leaf2);
        owner.mark();
        assert!(white(&leaf2), "an already grey box is not traversed again");
''')
t("edge_generic_root_mark", [], '''
        let leaf = w_upvalue();
        let owner: Root<RefCell<ObjUpvalue>> = leaf.as_root();
        kani::cover!(white(&leaf), "reach");
        owner.mark();
        assert!(!white(&leaf), "Root<T> marks its referent");
        std::mem::forget(owner);
''')

# Value variants: the REAL Value::mark, one obligation per heap variant
VALUE_LEAVES = {
    "ObjStringIter": "typed_gc!(RefCell<ObjStringIter>, RefCell::new(ObjStringIter::new(g_class(), grey(w_string()))))",
    "ObjFunction": "w_function()",
    "ObjNative": "w_native()",
    "ObjClosure": "w_closure()",
    "ObjClass": "w_class()",
    "ObjInstance": "typed_gc!(RefCell<ObjInstance>, RefCell::new(ObjInstance::new(g_class())))",
    "ObjBoundMethod": "typed_gc!(RefCell<ObjBoundMethod<ObjClosure>>, RefCell::new(ObjBoundMethod::new(Value::None, grey(w_closure()))))",
    "ObjBoundNative": "typed_gc!(RefCell<ObjBoundMethod<ObjNative>>, RefCell::new(ObjBoundMethod::new(Value::None, grey(w_native()))))",
    "ObjTuple": "w_tuple()",
    "ObjTupleIter": "typed_gc!(RefCell<ObjTupleIter>, RefCell::new(ObjTupleIter::new(g_class(), grey(w_tuple()))))",
    "ObjVec": "w_vec()",
    "ObjVecIter": "typed_gc!(RefCell<ObjVecIter>, RefCell::new(ObjVecIter::new(g_class(), grey(w_vec()))))",
    "ObjRange": "w_range()",
    "ObjRangeIter": "typed_gc!(RefCell<ObjRangeIter>, RefCell::new(ObjRangeIter::new(g_class(), grey(w_range()))))",
    "ObjHashMap": "typed_gc!(RefCell<ObjHashMap>, RefCell::new(ObjHashMap::new(g_class())))",
}
MAP_LEAVES = ("ObjClass", "ObjInstance", "ObjHashMap")
for variant, ctor in VALUE_LEAVES.items():
    t("edge_value_" + re.sub(r"(?<!^)(?=[A-Z])", "_", variant).lower(), ["Value." + variant], '''
        let leaf = %s;
        let owner = Value::%s(leaf);
        kani::cover!(white(&leaf), "reach");
        owner.mark();
        assert!(!white(&leaf), "a value of this kind keeps its object alive");
''' % (ctor, variant), stub=False, unwind=3, group="edges-maps" if variant in MAP_LEAVES else "edges-values")
t("edge_value_obj_fiber", ["Value.ObjFiber"], FIBER_SETUP + '''
        let leaf = fiber;
        let owner = Value::ObjFiber(leaf);
        kani::cover!(white(&leaf), "reach");
        owner.mark();
        assert!(!white(&leaf), "a fiber value keeps its fiber alive");
''', stub=False, unwind=5, group="edges-fiber")


def parse_fields(src_dir):
    """{Struct.field: type} for structs, {Enum.Variant: payload} for enums, over the anchored files."""
    found = {}
    for fn in ("object.rs", "value.rs", "chunk.rs", "stack.rs"):
        text = open(os.path.join(src_dir, fn)).read()
        text = text.split("// ---- verif")[0]
        for m in re.finditer(r"(?:pub(?:\(crate\))?\s+)?struct\s+(\w+)(?:<[^{;]*?>)?\s*(?:where[^{]*)?\{(.*?)\n\}", text, re.S):
            name, body = m.group(1), m.group(2)
            for fm in re.finditer(r"^\s*(?:pub(?:\(crate\))?\s+)?(\w+)\s*:\s*([^\n]+?),?\s*$", body, re.M):
                found["%s.%s" % (name, fm.group(1))] = fm.group(2)
        for m in re.finditer(r"(?:pub(?:\(crate\))?\s+)?enum\s+(\w+)\s*\{(.*?)\n\}", text, re.S):
            name, body = m.group(1), m.group(2)
            for vm in re.finditer(r"^\s*(\w+)\s*\(([^\n]*)\)\s*,?\s*$", body, re.M):
                found["%s.%s" % (name, vm.group(1))] = vm.group(2)
    return found


def generate(src_dir):
    fields = parse_fields(src_dir)
    ref_edges = {k: v for k, v in fields.items() if any(r in v for r in REF_TYPES)}
    # ObjUpvalueState.Open holds a raw pointer into a fiber's stack: no edge exists (known finding
    # upvalue-dead-fiber); ExcHandler / raw ip pointers are not collected objects.
    covered = set()
    out = [PREAMBLE]
    harnesses = []
    for name, tpl in T.items():
        if any(req not in fields for req in tpl["requires"]):
            continue
        covered.update(tpl["requires"])
        attrs = ["    #[kani::proof]", "    #[kani::unwind(%d)]" % tpl["unwind"]]
        stubs = []
        if tpl["stub"] is True:
            attrs.append("    #[kani::stub(<crate::value::Value as crate::memory::GcManaged>::mark, crate::verif_stubs::value_mark_stub)]")
            stubs = ["GcManaged>::mark"]
        elif tpl["stub"] == "strmap":
            attrs.append("    #[kani::stub(<std::collections::HashMap<crate::memory::Gc<ObjString>, Value, crate::hash::BuildPassThroughHasher> as crate::memory::GcManaged>::mark, str_map_mark_recorder)]")
            stubs = ["GcManaged>::mark"]
        elif tpl["stub"] == "valmap":
            attrs.append("    #[kani::stub(<std::collections::HashMap<Value, Value, crate::hash::BuildPassThroughHasher> as crate::memory::GcManaged>::mark, val_map_mark_recorder)]")
            stubs = ["GcManaged>::mark"]
        elif tpl["stub"] == "tuple":
            attrs.append("    #[kani::stub(<crate::value::Value as crate::memory::GcManaged>::mark, crate::verif_stubs::value_mark_stub_tuple)]")
            stubs = ["GcManaged>::mark"]
        out.append("\n".join(attrs) + "\n    fn %s() {%s    }\n" % (name, tpl["body"]))
        harnesses.append({
            "name": name, "group": tpl["group"], "module": "object::verif_c01_edges", "unwind": tpl["unwind"],
            "stubs": stubs,
            "inputs": "owner of the edge %s with a white leaf behind it (position symbolic for containers), every other referent grey" % (", ".join(tpl["requires"]) or "generic container/handle"),
            "asserts": "after the owner's real mark() the leaf is no longer white",
        })
    out.append('''
    /// Twin: must FAIL.
    #[kani::proof]
    #[kani::unwind(3)]
    fn edges_twin_must_fail() {
        let leaf = w_upvalue();
        let owner = ObjUpvalue { data: ObjUpvalueState::Closed(Value::None), next: Some(leaf) };
        assert!(white(&leaf) && owner.next.is_some(), "set-up");
        assert!(false, "twin");
    }
}
''')
    for g in ("edges", "edges-values", "edges-maps", "edges-fiber", "edges-tables"):
        harnesses.append({"name": "edges_twin_must_fail", "group": g, "module": "object::verif_c01_edges", "twin": True})
    unencoded = []
    for k, ty in sorted(ref_edges.items()):
        if k in covered or k in EXEMPT or k in NOT_ENCODABLE:
            continue
        if k in ("ObjUpvalueState.Open", "ObjUpvalueState.Closed"):
            continue
        if k.startswith("ExcHandler.") or k.startswith("CallFrame.ip") or k == "Stack.top":
            continue
        unencoded.append("%s: %s (reference-bearing field with no harness template and no exemption)" % (k, ty))
    return {"files": {"object.rs": "".join(out)}, "harnesses": harnesses, "unencoded": unencoded,
            "edges_found": sorted(ref_edges), "exempt": {k: v for k, v in EXEMPT.items() if k in fields},
            "not_encodable": {k: v for k, v in NOT_ENCODABLE.items() if k in fields}}


if __name__ == "__main__":
    import json
    import sys
    g = generate(sys.argv[1] if len(sys.argv) > 1 else "/repo/yarel/src")
    print(json.dumps({k: v for k, v in g.items() if k != "files"}, indent=1))
