
// ---- verif C01-H1 / C16: heap steps on a local Heap (appended to memory.rs) ----------------------
// Populations are "class-free" (no object references an ObjClass, so no hashbrown table is iterated
// while marking). Two populations of three objects keep the loop unwinding at 4-5:
//   A:  s  ObjNative leaf (allocated first)          B:  s  ObjNative leaf (allocated first)
//       n  ObjNative leaf                                u2 RefCell<ObjUpvalue> closed over the value s
//       bm RefCell<ObjBoundMethod<ObjNative>>            u1 RefCell<ObjUpvalue> closed over nil, next -> u2
//          { receiver: s, method: n }
// Which Root handles are kept is symbolic (all 2^3 root sets in one query).
#[cfg(kani)]
mod verif_heap {
    use super::*;
    use crate::error::Error;
    use crate::object::{ObjBoundMethod, ObjNative, ObjUpvalue};
    use crate::value::Value;
    use crate::vm::Vm;

    fn dummy_native(_vm: &mut Vm, _n: usize) -> Result<Value, Error> {
        Ok(Value::None)
    }

    /// Leaf payload: `manages_stack` is the marker the harnesses read back to see the object intact.
    fn leaf(marker: bool) -> ObjNative {
        ObjNative::new(Gc::dangling(), dummy_native, marker)
    }

    type Bm = RefCell<ObjBoundMethod<ObjNative>>;
    type Up = RefCell<ObjUpvalue>;

    fn closed_upvalue(v: Value) -> ObjUpvalue {
        let mut slot = v;
        let mut up = ObjUpvalue::new(&mut slot as *mut Value);
        up.close();
        up
    }

    struct PopA {
        s: Root<ObjNative>,
        n: Root<ObjNative>,
        bm: Root<Bm>,
        charge: [usize; 3],
    }

    /// Builds population A through the real allocation path. The threshold is set so that no
    /// collection interferes in the optimised configuration; in the checked configuration every
    /// allocation collects (everything is still rooted at that point, so nothing is freed).
    fn build_a(heap: &mut Heap) -> PopA {
        heap.collection_threshold = usize::MAX;
        let b0 = heap.bytes_allocated;
        let s = heap.allocate_root(leaf(true));
        let b1 = heap.bytes_allocated;
        let n = heap.allocate_root(leaf(false));
        let b2 = heap.bytes_allocated;
        let bm = heap.allocate_root(RefCell::new(ObjBoundMethod::new(Value::ObjNative(s.as_gc()), n.as_gc())));
        let b3 = heap.bytes_allocated;
        PopA { s, n, bm, charge: [b1 - b0, b2 - b1, b3 - b2] }
    }

    struct PopB {
        s: Root<ObjNative>,
        u2: Root<Up>,
        u1: Root<Up>,
        charge: [usize; 3],
    }

    fn build_b(heap: &mut Heap) -> PopB {
        heap.collection_threshold = usize::MAX;
        let b0 = heap.bytes_allocated;
        let s = heap.allocate_root(leaf(true));
        let b1 = heap.bytes_allocated;
        let u2 = heap.allocate_root(RefCell::new(closed_upvalue(Value::ObjNative(s.as_gc()))));
        let b2 = heap.bytes_allocated;
        let u1 = heap.allocate_root(RefCell::new(closed_upvalue(Value::None)));
        let b3 = heap.bytes_allocated;
        u1.borrow_mut().next = Some(u2.as_gc());
        PopB { s, u2, u1, charge: [b1 - b0, b2 - b1, b3 - b2] }
    }

    fn in_heap<T: 'static + GcManaged>(heap: &Heap, gc: &Gc<T>) -> bool {
        let p = gc.ptr.as_ptr() as *const u8;
        let mut found = false;
        let mut i = 0;
        while i < heap.objects.len() {
            let q = heap.objects[i].as_ref().get_ref() as *const GcBox<dyn GcManaged> as *const u8;
            if q == p {
                found = true;
            }
            i += 1;
        }
        found
    }

    fn keep_or_drop<T: 'static + GcManaged>(r: Root<T>, keep: bool) {
        if keep {
            mem::forget(r);
        } else {
            drop(r);
        }
    }

    /// C01-H1 / C16 on population A (bound method -> receiver + method): one `collect()` from every
    /// root set.
    ///  * an object survives  <=>  it is rooted or referenced by a survivor (safety AND liveness);
    ///  * every survivor is dereferenced afterwards (a freed one trips CBMC's lifetime checks);
    ///  * accounting: bytes_allocated == sum of the survivors' allocation charges, threshold == 2x.
    #[kani::proof]
    #[kani::unwind(5)]
    #[kani::stub(<crate::value::Value as crate::memory::GcManaged>::mark, crate::verif_stubs::value_mark_stub)]
    #[kani::stub(<crate::value::Value as crate::memory::GcManaged>::blacken, crate::verif_stubs::value_blacken_stub)]
    fn heap_collect_exact_bound_method() {
        let mut heap = Heap::new();
        let p = build_a(&mut heap);
        let (gs, gn, gbm) = (p.s.as_gc(), p.n.as_gc(), p.bm.as_gc());
        let charge = p.charge;
        let ks: bool = kani::any();
        let kn: bool = kani::any();
        let kbm: bool = kani::any();
        let PopA { s, n, bm, .. } = p;
        keep_or_drop(s, ks);
        keep_or_drop(n, kn);
        keep_or_drop(bm, kbm);
        assert!(heap.bytes_allocated == charge[0] + charge[1] + charge[2], "every allocation is charged");

        heap.collect();

        let r_bm = kbm;
        let r_n = kn || r_bm;
        let r_s = ks || r_bm;
        let (ls, ln, lbm) = (in_heap(&heap, &gs), in_heap(&heap, &gn), in_heap(&heap, &gbm));
        kani::cover!(kbm && !ks && !kn, "reach-receiver-only-via-bound-method");
        kani::cover!(!ks && !kn && !kbm, "reach-all-garbage");
        assert!(!r_s || ls, "reachable receiver survives");
        assert!(!r_n || ln, "reachable method survives");
        assert!(!r_bm || lbm, "rooted bound method survives");
        assert!(r_s || !ls, "unreachable leaf is reclaimed");
        assert!(r_n || !ln, "unreachable native is reclaimed");
        assert!(r_bm || !lbm, "unreachable bound method is reclaimed");
        if r_s {
            assert!(gs.manages_stack, "leaf payload intact");
        }
        if r_bm {
            let b = gbm.borrow();
            assert!(matches!(b.receiver, Value::ObjNative(x) if x.manages_stack), "receiver intact");
            assert!(!b.method.manages_stack, "method intact");
        }
        let surv = (if ls { charge[0] } else { 0 }) + (if ln { charge[1] } else { 0 }) + (if lbm { charge[2] } else { 0 });
        assert!(heap.bytes_allocated == surv, "bytes_allocated equals the survivors' charges");
        assert!(heap.collection_threshold == surv * common::HEAP_GROWTH_FACTOR, "threshold is growth factor x live size");
        assert!(common::HEAP_GROWTH_FACTOR == 2, "growth factor is 2");
        mem::forget(heap);
    }

    /// Same on population B (chain u1 -> u2 -> s: reachability through two hops).
    #[kani::proof]
    #[kani::unwind(5)]
    #[kani::stub(<crate::value::Value as crate::memory::GcManaged>::mark, crate::verif_stubs::value_mark_stub)]
    #[kani::stub(<crate::value::Value as crate::memory::GcManaged>::blacken, crate::verif_stubs::value_blacken_stub)]
    fn heap_collect_exact_chain() {
        let mut heap = Heap::new();
        let p = build_b(&mut heap);
        let (gs, gu2, gu1) = (p.s.as_gc(), p.u2.as_gc(), p.u1.as_gc());
        let charge = p.charge;
        let ks: bool = kani::any();
        let ku2: bool = kani::any();
        let ku1: bool = kani::any();
        let PopB { s, u2, u1, .. } = p;
        keep_or_drop(s, ks);
        keep_or_drop(u2, ku2);
        keep_or_drop(u1, ku1);

        heap.collect();

        let r_u1 = ku1;
        let r_u2 = ku2 || r_u1;
        let r_s = ks || r_u2;
        let (ls, lu2, lu1) = (in_heap(&heap, &gs), in_heap(&heap, &gu2), in_heap(&heap, &gu1));
        kani::cover!(ku1 && !ku2 && !ks, "reach-two-hops");
        kani::cover!(!ks && !ku2 && !ku1, "reach-all-garbage");
        assert!(!r_s || ls, "reachable captured value survives");
        assert!(!r_u2 || lu2, "reachable upvalue survives");
        assert!(!r_u1 || lu1, "rooted upvalue survives");
        assert!(r_s || !ls, "unreachable leaf is reclaimed");
        assert!(r_u2 || !lu2, "unreachable upvalue is reclaimed");
        assert!(r_u1 || !lu1, "unreachable upvalue (head) is reclaimed");
        if r_u1 {
            let next = gu1.borrow().next;
            assert!(next.is_some(), "chain link intact");
            assert!(matches!(next.unwrap().borrow().get(), Value::ObjNative(x) if x.manages_stack), "captured value intact");
        }
        let surv = (if ls { charge[0] } else { 0 }) + (if lu2 { charge[1] } else { 0 }) + (if lu1 { charge[2] } else { 0 });
        assert!(heap.bytes_allocated == surv, "bytes_allocated equals the survivors' charges");
        assert!(heap.collection_threshold == 2 * surv, "threshold is 2 x live size");
        mem::forget(heap);
    }

    /// C16 pacing, collect case: bytes_allocated >= threshold  =>  allocate_raw collects first.
    /// (Separate from the no-collect case: merged, the object list length becomes symbolic before the push.)
    #[kani::proof]
    #[kani::unwind(5)]
    #[kani::stub(<crate::value::Value as crate::memory::GcManaged>::mark, crate::verif_stubs::value_mark_stub)]
    #[kani::stub(<crate::value::Value as crate::memory::GcManaged>::blacken, crate::verif_stubs::value_blacken_stub)]
    fn heap_alloc_collects_at_threshold() {
        let mut heap = Heap::new();
        let p = build_a(&mut heap);
        let charge = p.charge;
        let PopA { s, n, bm, .. } = p;
        // live set: s ; garbage: n, bm
        drop(n);
        drop(bm);
        let before = heap.bytes_allocated;
        let thr: usize = kani::any();
        kani::assume(thr <= before);
        heap.collection_threshold = thr;
        let fresh = heap.allocate_root(leaf(true));
        let live = charge[0];
        kani::cover!(thr == before, "reach-exactly-at-threshold");
        kani::cover!(thr == 0, "reach-zero-threshold");
        assert!(heap.objects.len() == 2, "garbage reclaimed before the new object is added");
        assert!(heap.bytes_allocated == live + charge[0], "bytes = live + the one new allocation");
        assert!(heap.collection_threshold == 2 * live, "threshold = 2 x size after the collection");
        assert!(fresh.manages_stack && s.manages_stack, "objects intact");
        mem::forget(fresh);
        mem::forget(s);
        mem::forget(heap);
    }

    /// C16 pacing, no-collect case (optimised configuration only): below the threshold an allocation only
    /// adds its charge; hence between collections the heap exceeds the threshold by at most one allocation.
    #[kani::proof]
    #[kani::unwind(5)]
    #[kani::stub(<crate::value::Value as crate::memory::GcManaged>::mark, crate::verif_stubs::value_mark_stub)]
    #[kani::stub(<crate::value::Value as crate::memory::GcManaged>::blacken, crate::verif_stubs::value_blacken_stub)]
    fn heap_alloc_below_threshold_only_charges() {
        let mut heap = Heap::new();
        let p = build_a(&mut heap);
        let charge = p.charge;
        let PopA { s, n, bm, .. } = p;
        drop(n);
        drop(bm);
        let before = heap.bytes_allocated;
        let thr: usize = kani::any();
        kani::assume(thr > before);
        heap.collection_threshold = thr;
        let fresh = heap.allocate_root(leaf(true));
        kani::cover!(thr == before + 1, "reach-just-below-threshold");
        if cfg!(debug_assertions) {
            // checked configuration collects at every allocation regardless of the threshold
            assert!(heap.objects.len() == 2, "checked build collects at every allocation");
        } else {
            assert!(heap.objects.len() == 4, "no collection below the threshold");
            assert!(heap.collection_threshold == thr, "threshold untouched");
            assert!(heap.bytes_allocated == before + charge[0], "only the new allocation is charged");
            assert!(heap.bytes_allocated - charge[0] < thr, "overshoot bounded by one allocation");
        }
        mem::forget(fresh);
        mem::forget(s);
        mem::forget(heap);
    }

    /// C16: the accounting returns to zero: allocate, drop every handle, collect => empty heap, 0 bytes.
    /// Run twice to show no drift accumulates across collections.
    #[kani::proof]
    #[kani::unwind(5)]
    #[kani::stub(<crate::value::Value as crate::memory::GcManaged>::mark, crate::verif_stubs::value_mark_stub)]
    #[kani::stub(<crate::value::Value as crate::memory::GcManaged>::blacken, crate::verif_stubs::value_blacken_stub)]
    fn heap_accounting_returns_to_zero() {
        let mut heap = Heap::new();
        let mut round = 0;
        while round < 2 {
            let p = build_a(&mut heap);
            let PopA { s, n, bm, .. } = p;
            drop(s);
            drop(n);
            drop(bm);
            heap.collect();
            assert!(heap.objects.len() == 0, "all garbage reclaimed");
            assert!(heap.bytes_allocated == 0, "accounting returns to zero after everything is reclaimed");
            assert!(heap.collection_threshold == 0, "threshold follows");
            round += 1;
        }
        kani::cover!(true, "reach-end");
        mem::forget(heap);
    }

    /// C16/C01: handle counting. A sequence of 3 symbolic handle operations (clone / Root::from(gc) /
    /// drop of an earlier handle) after a UniqueRoot->Root conversion: num_roots always equals the number
    /// of live handles; while it is > 0 a collection keeps the object, when it returns to 0 the next
    /// collection reclaims it.
    #[kani::proof]
    #[kani::unwind(5)]
    fn root_handles_count_live_handles() {
        let mut heap = Heap::new();
        heap.collection_threshold = usize::MAX;
        let unique = heap.allocate_unique(leaf(true));
        let gc = Gc { ptr: unique.ptr };
        assert!(gc.gc_box().num_roots.get() == 1, "a fresh unique root counts once");
        let root0: Root<ObjNative> = unique.into();
        assert!(gc.gc_box().num_roots.get() == 1, "UniqueRoot -> Root keeps the count");
        let mut handles: [Option<Root<ObjNative>>; 3] = [None, None, None];
        let mut live = 1usize;
        let mut i = 0;
        while i < 3 {
            let op: u8 = kani::any();
            kani::assume(op < 3);
            if op == 0 {
                handles[i] = Some(root0.clone());
                live += 1;
            } else if op == 1 {
                handles[i] = Some(Root::from(gc));
                live += 1;
            } else if i > 0 {
                let j: usize = kani::any();
                kani::assume(j < i);
                if handles[j].take().is_some() {
                    live -= 1;
                }
            }
            assert!(gc.gc_box().num_roots.get() == live, "num_roots equals the number of live handles");
            i += 1;
        }
        kani::cover!(live == 4, "reach-four-handles");
        kani::cover!(live == 1, "reach-back-to-one");
        heap.collect();
        assert!(heap.objects.len() == 1, "rooted object survives a collection");
        assert!(gc.manages_stack, "rooted object intact");
        let mut k = 0;
        while k < 3 {
            if handles[k].take().is_some() {
                live -= 1;
            }
            k += 1;
        }
        drop(root0);
        assert!(live == 1, "model bookkeeping");
        assert!(gc.gc_box().num_roots.get() == 0, "count returns to zero when every handle is gone");
        heap.collect();
        assert!(heap.objects.len() == 0, "unrooted object is reclaimed");
        mem::forget(heap);
    }

    /// Twin: must FAIL.
    #[kani::proof]
    #[kani::unwind(5)]
    #[kani::stub(<crate::value::Value as crate::memory::GcManaged>::mark, crate::verif_stubs::value_mark_stub)]
    #[kani::stub(<crate::value::Value as crate::memory::GcManaged>::blacken, crate::verif_stubs::value_blacken_stub)]
    fn heap_twin_must_fail() {
        let mut heap = Heap::new();
        let p = build_a(&mut heap);
        let PopA { s, n, bm, .. } = p;
        let k: bool = kani::any();
        keep_or_drop(s, k);
        drop(n);
        drop(bm);
        heap.collect();
        assert!(false, "twin");
    }
}
