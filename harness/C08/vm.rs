
// ---- verif C08: delivery of a thrown value by the interpreter (appended to vm.rs) -----------------
// The VM half of "exceptions reach the innermost active handler": handlers are registered by the real
// PushExcHandler step (operands read from the code buffer), a value is thrown by the real Throw step,
// a try block is left normally by PopExcHandler, a `return` inside try..finally goes through
// JumpFinally/EndFinally. The specification is on what the handling code observes afterwards: where
// execution continues, in which call, what the value stack of that call holds, which handlers are
// still registered. Control (how many handlers, frames, temporaries) is concrete per harness; every
// value and every block size is symbolic.
#[cfg(kani)]
mod verif_c08 {
    use super::verif_vm::*;
    use super::*;
    use crate::verif_stubs::*;
    #[allow(unused_imports)]
    use crate::object::CallFrame;

    fn num(v: Value, want: f64) -> bool {
        matches!(v, Value::Number(x) if x.to_bits() == want.to_bits())
    }

    const CODE_LEN: usize = 64;
    /// operand cells of the two PushExcHandler instructions (try size, catch size)
    const OUTER_ARGS: usize = 1;
    const INNER_ARGS: usize = 9;

    /// Code buffer with the two handlers' operands written at OUTER_ARGS / INNER_ARGS. The bytes are
    /// never executed; ips are compared as addresses.
    fn code_with(outer: (u16, u16), inner: (u16, u16)) -> Vec<u8> {
        let mut code = vec![0u8; CODE_LEN];
        let w = |code: &mut Vec<u8>, at: usize, v: u16| {
            let b = v.to_ne_bytes();
            code[at] = b[0];
            code[at + 1] = b[1];
        };
        w(&mut code, OUTER_ARGS, outer.0);
        w(&mut code, OUTER_ARGS + 2, outer.1);
        w(&mut code, INNER_ARGS, inner.0);
        w(&mut code, INNER_ARGS + 2, inner.1);
        code
    }

    fn sizes() -> (u16, u16) {
        let t: u16 = kani::any();
        let c: u16 = kani::any();
        kani::assume(t >= 4 && t <= 20 && c <= 20);
        (t, c)
    }

    struct World {
        vm: Vm,
        f: FiberParts,
        base: *const u8,
    }

    /// One running fiber, frame 0 holding [closure, l1, l2].
    fn world(st: &mut FiberStore, code: Vec<u8>, l1: f64, l2: f64) -> World {
        let mut vm = bare_vm();
        let f = st.init(code, 1);
        activate(&mut vm, &f);
        vm.push(Value::ObjClosure(f.closure));
        vm.push(Value::Number(l1));
        vm.push(Value::Number(l2));
        let base = f.chunk.code.as_ptr();
        World { vm, f, base }
    }

    /// Executes the PushExcHandler step whose operands sit at `args` (the opcode byte itself precedes it).
    fn push_handler(w: &mut World, args: usize) {
        w.vm.ip = unsafe { w.base.offset(args as isize) };
        w.vm.push_exc_handler_impl();
        assert!(w.vm.ip == unsafe { w.base.offset(args as isize + 4) }, "PushExcHandler consumes its two operands");
    }
    fn catch_addr(w: &World, args: usize, sz: (u16, u16)) -> *const u8 {
        unsafe { w.base.offset(args as isize + 4 + sz.0 as isize) }
    }
    fn finally_addr(w: &World, args: usize, sz: (u16, u16)) -> *const u8 {
        unsafe { w.base.offset(args as isize + 4 + sz.0 as isize + sz.1 as isize) }
    }
    fn handlers(w: &World) -> usize {
        w.f.fiber.borrow().exc_handlers.len()
    }
    fn slot(w: &World, i: usize) -> Value {
        w.f.fiber.borrow().stack[i]
    }

    /// Two nested try blocks in one function; the inner one has temporaries above it when the value is
    /// thrown. The value arrives at the INNER handler's catch address, on top of exactly the values that
    /// were live when the inner try was entered; the function's locals are intact; the outer handler is
    /// still registered (and is the one a second throw reaches).
    #[kani::proof]
    #[kani::unwind(5)]
    #[kani::stub(std::fmt::format, fmt_stub)]
    #[kani::stub(crate::vm::Vm::new_root_obj_err_from_error, crate::vm::verif_vm::err_instance_stub)]
    #[kani::stub(crate::vm::Vm::new_error_from_value, crate::vm::verif_vm::error_from_value_stub)]
    fn c08_throw_reaches_innermost_handler_then_outer() {
        let (outer, inner) = (sizes(), sizes());
        kani::assume(inner.1 > 0 && outer.1 > 0); // both have a catch block
        let (l1, l2, t1, t2, e1, e2): (f64, f64, f64, f64, f64, f64) = kani::any();
        let mut st = FiberStore::empty();
        let mut w = world(&mut st, code_with(outer, inner), l1, l2);
        push_handler(&mut w, OUTER_ARGS); // try {            (depth 3)
        w.vm.push(Value::Number(t1)); //       var t1 = ..;  (depth 4)
        push_handler(&mut w, INNER_ARGS); //   try {
        w.vm.push(Value::Number(t2)); //         temporaries of the expression being evaluated
        w.vm.push(Value::Number(e1)); //         throw e1;
        w.vm.ip = unsafe { w.base.offset(40) };
        let r = w.vm.throw_impl();
        kani::cover!(r.is_ok(), "reach-first-delivery");
        assert!(r.is_ok(), "a throw inside a try block is delivered, not reported as uncaught");
        assert!(w.vm.ip == catch_addr(&w, INNER_ARGS, inner), "execution continues at the innermost handler's catch block");
        assert!(w.vm.stack_size() == 5 && num(slot(&w, 4), e1), "the thrown value is the catch variable, directly above the values live at try entry");
        assert!(num(slot(&w, 1), l1) && num(slot(&w, 2), l2) && num(slot(&w, 3), t1), "the handling function's variables are intact");
        assert!(w.f.fiber.borrow().frames.len() == 1 && vm_cache_coherent(&w.vm), "still in the handling function");
        assert!(handlers(&w) == 1, "the inner handler is consumed, the outer one is still active");
        assert!(!w.vm.handling_exception, "with a catch block the exception counts as handled");
        // the catch block throws again: the OUTER handler gets it
        w.vm.push(Value::Number(e2));
        let r2 = w.vm.throw_impl();
        assert!(r2.is_ok(), "handling one exception does not disable the outer handler");
        assert!(w.vm.ip == catch_addr(&w, OUTER_ARGS, outer), "the second value reaches the outer catch block");
        assert!(w.vm.stack_size() == 4 && num(slot(&w, 3), e2), "above the values live at the outer try's entry");
        assert!(num(slot(&w, 1), l1) && num(slot(&w, 2), l2), "locals intact");
        assert!(handlers(&w) == 0, "no handler is left");
        // nobody is left: a third throw is uncaught
        w.vm.push(Value::Number(e1));
        let r3 = w.vm.throw_impl();
        assert!(r3.is_err(), "a value nobody catches ends the run with an error");
        std::mem::forget(r);
        std::mem::forget(r2);
        std::mem::forget(r3);
        std::mem::forget(w);
    }

    /// A value thrown two calls below the function that has the handler: the callee frames are dropped,
    /// execution continues in the handling function at its catch block, its stack is cut back to the try
    /// entry and holds the value on top.
    #[kani::proof]
    #[kani::unwind(5)]
    #[kani::stub(std::fmt::format, fmt_stub)]
    #[kani::stub(crate::vm::Vm::new_root_obj_err_from_error, crate::vm::verif_vm::err_instance_stub)]
    #[kani::stub(crate::vm::Vm::new_error_from_value, crate::vm::verif_vm::error_from_value_stub)]
    fn c08_throw_in_callee_unwinds_to_handling_function() {
        let (outer, inner) = (sizes(), sizes());
        let (l1, l2, a1, e): (f64, f64, f64, f64) = kani::any();
        let mut st = FiberStore::empty();
        let mut sc = FiberStore::empty();
        let mut w = world(&mut st, code_with(outer, inner), l1, l2);
        // a second function (its own chunk) to be the callee
        let callee = sc.init(vec![0u8; 8], 1);
        push_handler(&mut w, OUTER_ARGS);
        let handler_ip = w.vm.ip;
        // call 1: callee(a1); call 2: callee() from inside it
        w.vm.push(Value::ObjClosure(callee.closure));
        w.vm.push(Value::Number(a1));
        w.f.fiber.borrow_mut().frames[0].ip = handler_ip;
        w.f.fiber.borrow_mut().frames.push(CallFrame { closure: callee.closure, ip: callee.chunk.code.as_ptr(), slot_base: 3 });
        w.vm.push(Value::ObjClosure(callee.closure));
        w.f.fiber.borrow_mut().frames.push(CallFrame { closure: callee.closure, ip: callee.chunk.code.as_ptr(), slot_base: 5 });
        w.vm.load_frame();
        w.vm.push(Value::Number(e));
        w.vm.ip = unsafe { callee.chunk.code.as_ptr().offset(3) };
        let r = w.vm.throw_impl();
        kani::cover!(r.is_ok(), "reach");
        assert!(r.is_ok(), "delivered");
        assert!(w.f.fiber.borrow().frames.len() == 1, "the calls below the handling function are abandoned");
        assert!(w.vm.ip == catch_addr(&w, OUTER_ARGS, outer), "execution continues at the catch block of the handling function");
        assert!(w.vm.active_chunk == w.f.chunk && vm_cache_coherent(&w.vm), "in the handling function's code");
        assert!(w.vm.stack_size() == 4 && num(slot(&w, 3), e), "its stack is cut back to the try entry, the value on top");
        assert!(num(slot(&w, 1), l1) && num(slot(&w, 2), l2), "its variables are intact");
        assert!(handlers(&w) == 0, "the handler is consumed");
        std::mem::forget(r);
        std::mem::forget(w);
    }

    /// A try block that ends normally (PopExcHandler) no longer intercepts: a later throw reaches the
    /// enclosing handler, or nobody.
    fn left_try_case(with_outer: bool) {
        let (outer, inner) = (sizes(), sizes());
        let (l1, l2, e): (f64, f64, f64) = kani::any();
        let mut st = FiberStore::empty();
        let mut w = world(&mut st, code_with(outer, inner), l1, l2);
        if with_outer {
            push_handler(&mut w, OUTER_ARGS);
        }
        push_handler(&mut w, INNER_ARGS);
        w.vm.pop_exc_handler_impl(); // inner try block ends normally
        w.vm.push(Value::Number(e));
        w.vm.ip = unsafe { w.base.offset(40) };
        let r = w.vm.throw_impl();
        kani::cover!(true, "reach");
        if with_outer {
            assert!(r.is_ok() && w.vm.ip == catch_addr(&w, OUTER_ARGS, outer), "the enclosing handler gets it");
            assert!(w.vm.stack_size() == 4 && num(slot(&w, 3), e), "value on top of the outer try's entry stack");
        } else {
            assert!(r.is_err(), "uncaught: the finished try block does not intercept");
        }
        assert!(handlers(&w) == 0, "no handler is left");
        std::mem::forget(r);
        std::mem::forget(w);
    }
    #[kani::proof]
    #[kani::unwind(5)]
    #[kani::stub(std::fmt::format, fmt_stub)]
    #[kani::stub(crate::vm::Vm::new_root_obj_err_from_error, crate::vm::verif_vm::err_instance_stub)]
    #[kani::stub(crate::vm::Vm::new_error_from_value, crate::vm::verif_vm::error_from_value_stub)]
    fn c08_left_try_block_no_longer_intercepts_enclosing_gets_it() {
        left_try_case(true);
    }
    #[kani::proof]
    #[kani::unwind(5)]
    #[kani::stub(std::fmt::format, fmt_stub)]
    #[kani::stub(crate::vm::Vm::new_root_obj_err_from_error, crate::vm::verif_vm::err_instance_stub)]
    #[kani::stub(crate::vm::Vm::new_error_from_value, crate::vm::verif_vm::error_from_value_stub)]
    fn c08_left_try_block_no_longer_intercepts_uncaught() {
        left_try_case(false);
    }

    /// try..finally without catch: the value arrives at the finally block and is re-thrown by
    /// EndFinally to the enclosing handler (the original outcome continues after the finally block).
    #[kani::proof]
    #[kani::unwind(5)]
    #[kani::stub(std::fmt::format, fmt_stub)]
    #[kani::stub(crate::vm::Vm::new_root_obj_err_from_error, crate::vm::verif_vm::err_instance_stub)]
    #[kani::stub(crate::vm::Vm::new_error_from_value, crate::vm::verif_vm::error_from_value_stub)]
    fn c08_finally_runs_then_exception_continues() {
        let (outer, inner) = (sizes(), sizes());
        kani::assume(outer.1 > 0);
        let inner = (inner.0, 0u16); // no catch block: finally address == catch address
        let (l1, l2, e): (f64, f64, f64) = kani::any();
        let mut st = FiberStore::empty();
        let mut w = world(&mut st, code_with(outer, inner), l1, l2);
        push_handler(&mut w, OUTER_ARGS);
        push_handler(&mut w, INNER_ARGS);
        w.vm.push(Value::Number(e));
        w.vm.ip = unsafe { w.base.offset(40) };
        let r = w.vm.throw_impl();
        assert!(r.is_ok() && w.vm.ip == finally_addr(&w, INNER_ARGS, inner), "the finally block runs first");
        assert!(w.vm.stack_size() == 4 && num(slot(&w, 3), e), "with the pending value kept");
        assert!(handlers(&w) == 1, "outer handler still active while finally runs");
        // the finally block ends
        let r2 = w.vm.end_finally_impl();
        kani::cover!(r2.is_ok(), "reach");
        assert!(r2.is_ok() && w.vm.ip == catch_addr(&w, OUTER_ARGS, outer), "the exception then continues to the enclosing handler");
        assert!(w.vm.stack_size() == 4 && num(slot(&w, 3), e), "carrying the same value");
        assert!(!w.vm.handling_exception && handlers(&w) == 0, "and is handled there");
        std::mem::forget(r);
        std::mem::forget(r2);
        std::mem::forget(w);
    }

    /// `return v` inside try..finally (JumpFinally): the finally block runs with the try block's
    /// temporaries dropped, and EndFinally then resumes the return with the same value; a finally
    /// block reached by falling through resumes nothing.
    #[kani::proof]
    #[kani::unwind(5)]
    #[kani::stub(std::fmt::format, fmt_stub)]
    #[kani::stub(crate::vm::Vm::new_root_obj_err_from_error, crate::vm::verif_vm::err_instance_stub)]
    #[kani::stub(crate::vm::Vm::new_error_from_value, crate::vm::verif_vm::error_from_value_stub)]
    fn c08_return_through_finally_keeps_its_value() {
        let (outer, inner) = (sizes(), sizes());
        let (l1, l2, t, v): (f64, f64, f64, f64) = kani::any();
        let mut st = FiberStore::empty();
        let mut w = world(&mut st, code_with(outer, inner), l1, l2);
        push_handler(&mut w, INNER_ARGS);
        w.vm.push(Value::Number(t)); // a local of the try block
        w.vm.push(Value::Number(v)); // return v;
        let ret_ip = unsafe { w.base.offset(30) };
        w.vm.ip = ret_ip;
        w.vm.jump_finally_impl();
        assert!(w.vm.ip == finally_addr(&w, INNER_ARGS, inner), "return inside try runs the finally block first");
        assert!(w.vm.stack_size() == 3 && num(slot(&w, 1), l1) && num(slot(&w, 2), l2), "with the try block's own values dropped and the function's locals intact");
        assert!(handlers(&w) == 0, "the try statement no longer intercepts");
        let r = w.vm.end_finally_impl();
        kani::cover!(r.is_ok(), "reach");
        assert!(r.is_ok() && w.vm.ip == ret_ip, "after the finally block the return resumes");
        assert!(w.vm.stack_size() == 4 && num(slot(&w, 3), v), "with the value it was returning");
        // a second, fall-through pass over a finally block resumes nothing
        let here = unsafe { w.base.offset(50) };
        w.vm.ip = here;
        let r2 = w.vm.end_finally_impl();
        assert!(r2.is_ok() && w.vm.ip == here && w.vm.stack_size() == 4, "falling through a finally block just continues");
        std::mem::forget(r);
        std::mem::forget(r2);
        std::mem::forget(w);
    }

    /// `return v` inside try..finally whose finally block then THROWS: the exception supersedes the
    /// return. It reaches the enclosing handler, and the abandoned return must not come back - a later
    /// finally block that is entered by falling through resumes nothing.
    #[kani::proof]
    #[kani::unwind(5)]
    #[kani::stub(std::fmt::format, fmt_stub)]
    #[kani::stub(crate::vm::Vm::new_root_obj_err_from_error, crate::vm::verif_vm::err_instance_stub)]
    #[kani::stub(crate::vm::Vm::new_error_from_value, crate::vm::verif_vm::error_from_value_stub)]
    fn c08_exception_out_of_finally_supersedes_parked_return() {
        let (outer, inner) = (sizes(), sizes());
        kani::assume(outer.1 > 0);
        let (l1, l2, v, e): (f64, f64, f64, f64) = kani::any();
        let mut st = FiberStore::empty();
        let mut w = world(&mut st, code_with(outer, inner), l1, l2);
        push_handler(&mut w, OUTER_ARGS); // try {
        push_handler(&mut w, INNER_ARGS); //   try {
        w.vm.push(Value::Number(v)); //          return v;
        w.vm.ip = unsafe { w.base.offset(30) };
        w.vm.jump_finally_impl(); //           } finally {
        assert!(w.vm.ip == finally_addr(&w, INNER_ARGS, inner) && handlers(&w) == 1, "the finally block runs, the outer handler is active");
        w.vm.push(Value::Number(e)); //          throw e;
        w.vm.ip = unsafe { w.base.offset(45) };
        let r = w.vm.throw_impl(); //          }
        kani::cover!(r.is_ok(), "reach");
        assert!(r.is_ok() && w.vm.ip == catch_addr(&w, OUTER_ARGS, outer), "the exception thrown by the finally block reaches the enclosing handler");
        assert!(w.vm.stack_size() == 4 && num(slot(&w, 3), e) && !w.vm.handling_exception, "and is handled there");
        // } catch e { .. }   then, later in the same fiber:   try { .. } finally { .. }  entered by falling through
        w.vm.pop();
        let here = unsafe { w.base.offset(55) };
        w.vm.ip = here;
        let r2 = w.vm.end_finally_impl();
        assert!(r2.is_ok() && w.vm.ip == here && w.vm.stack_size() == 3, "a finally block entered by falling through just continues: the superseded return does not come back");
        std::mem::forget(r);
        std::mem::forget(r2);
        std::mem::forget(w);
    }

    /// `return v` inside try..finally whose finally block raises an exception that is CAUGHT inside the
    /// finally block: the finally block completes normally, so the original outcome - the return of v -
    /// continues.
    #[kani::proof]
    #[kani::unwind(5)]
    #[kani::stub(std::fmt::format, fmt_stub)]
    #[kani::stub(crate::vm::Vm::new_root_obj_err_from_error, crate::vm::verif_vm::err_instance_stub)]
    #[kani::stub(crate::vm::Vm::new_error_from_value, crate::vm::verif_vm::error_from_value_stub)]
    fn c08_exception_caught_inside_finally_keeps_parked_return() {
        let (outer, inner) = (sizes(), sizes());
        kani::assume(outer.1 > 0);
        let (l1, l2, v, e): (f64, f64, f64, f64) = kani::any();
        let mut st = FiberStore::empty();
        let mut w = world(&mut st, code_with(outer, inner), l1, l2);
        push_handler(&mut w, INNER_ARGS); // try {
        w.vm.push(Value::Number(v)); //        return v;
        let ret_ip = unsafe { w.base.offset(30) };
        w.vm.ip = ret_ip;
        w.vm.jump_finally_impl(); //         } finally {
        push_handler(&mut w, OUTER_ARGS); //   try {          (a try/catch nested in the finally block)
        w.vm.push(Value::Number(e)); //          throw e;
        w.vm.ip = unsafe { w.base.offset(45) };
        let r = w.vm.throw_impl(); //          } catch x {
        kani::cover!(r.is_ok(), "reach");
        assert!(r.is_ok() && w.vm.ip == catch_addr(&w, OUTER_ARGS, outer) && !w.vm.handling_exception, "caught by the handler inside the finally block");
        w.vm.pop(); //                         }
        let r2 = w.vm.end_finally_impl(); // }
        assert!(r2.is_ok() && w.vm.ip == ret_ip, "the finally block completed normally: the return resumes");
        assert!(w.vm.stack_size() == 4 && num(slot(&w, 3), v), "with the value it was returning");
        assert!(num(slot(&w, 1), l1) && num(slot(&w, 2), l2), "locals intact");
        std::mem::forget(r);
        std::mem::forget(r2);
        std::mem::forget(w);
    }

    /// A built-in that fails (a native returning Err, or an operation routing an error through
    /// try_handle_error) inside try..finally without catch: the error value arrives at the finally block,
    /// and when the finally block ends the exception continues to the enclosing handler - it is not
    /// dropped.
    fn failing_native(_vm: &mut Vm, _n: usize) -> Result<Value, Error> {
        Err(Error::new(ErrorKind::RuntimeError))
    }
    fn builtin_error_case(through_native: bool) {
        let (outer, inner) = (sizes(), sizes());
        kani::assume(outer.1 > 0);
        let inner = (inner.0, 0u16); // try..finally without catch
        let (l1, l2, t): (f64, f64, f64) = kani::any();
        let mut st = FiberStore::empty();
        let mut w = world(&mut st, code_with(outer, inner), l1, l2);
        let mut nat = crate::memory::verif_mem::Placed::new(ObjNative::new(Gc::dangling(), failing_native as NativeFn, false));
        push_handler(&mut w, OUTER_ARGS);
        push_handler(&mut w, INNER_ARGS);
        w.vm.push(Value::Number(t)); // a temporary of the try block
        w.vm.ip = unsafe { w.base.offset(40) };
        let r = if through_native {
            w.vm.push(Value::None); // receiver slot of the call
            w.vm.call_native(nat.gc(), 0)
        } else {
            w.vm.try_handle_error(Error::new(ErrorKind::TypeError))
        };
        assert!(r.is_ok() && w.vm.ip == finally_addr(&w, INNER_ARGS, inner), "the failure is delivered to the finally block");
        assert!(w.vm.stack_size() == 4 && matches!(slot(&w, 3), Value::ObjInstance(_)), "as an error instance above the values live at try entry");
        assert!(handlers(&w) == 1, "outer handler still active while finally runs");
        let pending = slot(&w, 3);
        let r2 = w.vm.end_finally_impl();
        kani::cover!(r2.is_ok(), "reach");
        assert!(r2.is_ok() && w.vm.ip == catch_addr(&w, OUTER_ARGS, outer), "after the finally block the exception continues to the enclosing handler");
        assert!(w.vm.stack_size() == 4 && slot(&w, 3) == pending, "carrying the same error value");
        assert!(handlers(&w) == 0 && !w.vm.handling_exception, "and is handled there");
        assert!(num(slot(&w, 1), l1) && num(slot(&w, 2), l2), "locals intact");
        std::mem::forget(r);
        std::mem::forget(r2);
        std::mem::forget(nat);
        std::mem::forget(w);
    }
    #[kani::proof]
    #[kani::unwind(5)]
    #[kani::stub(std::fmt::format, fmt_stub)]
    #[kani::stub(crate::vm::Vm::new_root_obj_err_from_error, crate::vm::verif_vm::err_instance_stub)]
    #[kani::stub(crate::vm::Vm::new_error_from_value, crate::vm::verif_vm::error_from_value_stub)]
    fn c08_failing_native_runs_finally_then_continues() {
        builtin_error_case(true);
    }
    #[kani::proof]
    #[kani::unwind(5)]
    #[kani::stub(std::fmt::format, fmt_stub)]
    #[kani::stub(crate::vm::Vm::new_root_obj_err_from_error, crate::vm::verif_vm::err_instance_stub)]
    #[kani::stub(crate::vm::Vm::new_error_from_value, crate::vm::verif_vm::error_from_value_stub)]
    fn c08_failing_operation_runs_finally_then_continues() {
        builtin_error_case(false);
    }

    /// The same through the native-call path (`call_native`'s Err arm): `Fiber.yield(x)` outside any
    /// fiber is a built-in call that fails. Inside try..finally the error reaches the finally block and
    /// continues to the enclosing handler afterwards.
    #[kani::proof]
    #[kani::unwind(5)]
    #[kani::stub(std::fmt::format, fmt_stub)]
    #[kani::stub(crate::vm::Vm::new_root_obj_err_from_error, crate::vm::verif_vm::err_instance_stub)]
    #[kani::stub(crate::vm::Vm::new_error_from_value, crate::vm::verif_vm::error_from_value_stub)]
    fn c08_failing_native_call_runs_finally_then_continues() {
        let (outer, inner) = (sizes(), sizes());
        kani::assume(outer.1 > 0);
        let inner = (inner.0, 0u16);
        let (l1, l2, x): (f64, f64, f64) = kani::any();
        let mut st = FiberStore::empty();
        let mut w = world(&mut st, code_with(outer, inner), l1, l2);
        let mut nat = crate::memory::verif_mem::Placed::new(ObjNative::new(Gc::dangling(), crate::core::verif_core::fiber_yield_fn(), true));
        push_handler(&mut w, OUTER_ARGS);
        push_handler(&mut w, INNER_ARGS);
        w.vm.push(Value::Boolean(true)); // receiver slot of the call (the Fiber class in a program)
        w.vm.push(Value::Number(x));
        w.vm.ip = unsafe { w.base.offset(40) };
        let r = w.vm.call_native(nat.gc(), 1);
        assert!(r.is_ok() && w.vm.ip == finally_addr(&w, INNER_ARGS, inner), "the failure is delivered to the finally block");
        assert!(w.vm.stack_size() == 4 && matches!(slot(&w, 3), Value::ObjInstance(_)) && handlers(&w) == 1, "as an error instance above the values live at try entry; outer handler still active");
        let r2 = w.vm.end_finally_impl();
        kani::cover!(r2.is_ok(), "reach");
        assert!(r2.is_ok() && w.vm.ip == catch_addr(&w, OUTER_ARGS, outer), "after the finally block the exception continues to the enclosing handler");
        assert!(handlers(&w) == 0 && !w.vm.handling_exception && num(slot(&w, 1), l1) && num(slot(&w, 2), l2), "and is handled there, locals intact");
        std::mem::forget(r);
        std::mem::forget(r2);
        std::mem::forget(nat);
        std::mem::forget(w);
    }

    /// Twin: must FAIL.
    #[kani::proof]
    #[kani::unwind(5)]
    #[kani::stub(std::fmt::format, fmt_stub)]
    #[kani::stub(crate::vm::Vm::new_root_obj_err_from_error, crate::vm::verif_vm::err_instance_stub)]
    #[kani::stub(crate::vm::Vm::new_error_from_value, crate::vm::verif_vm::error_from_value_stub)]
    fn c08_twin_must_fail() {
        let (outer, inner) = (sizes(), sizes());
        let mut st = FiberStore::empty();
        let mut w = world(&mut st, code_with(outer, inner), 1.0, 2.0);
        push_handler(&mut w, OUTER_ARGS);
        w.vm.push(Value::Number(3.0));
        let _ = w.vm.throw_impl();
        assert!(false, "twin");
    }
}
