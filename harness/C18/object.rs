
// ---- verif C18: native iterator cursors (appended to object.rs) ----------------------------------
#[cfg(kani)]
mod verif_c18 {
    use super::*;
    use crate::memory::verif_mem::leak_gc;

    fn num_eq(v: Option<Value>, want: f64) -> bool {
        matches!(v, Some(Value::Number(x)) if x.to_bits() == want.to_bits())
    }

    /// ObjRangeIter for every begin (incl. isize::MIN/MAX neighbourhoods) and every end with
    /// |end - begin| <= 4: yields begin, begin+-1, ... exactly |end - begin| values, then None on every
    /// further call; no arithmetic overflow.
    #[kani::proof]
    #[kani::unwind(7)]
    fn c18_range_iter_visits_each_once() {
        let b: isize = kani::any();
        let e: isize = kani::any();
        let d = (e as i128) - (b as i128);
        kani::assume(d >= -4 && d <= 4);
        let r = leak_gc(ObjRange::new(Gc::dangling(), b, e));
        let mut it = ObjRangeIter::new(Gc::dangling(), r);
        let n = if d < 0 { -d } else { d } as usize;
        let mut i = 0usize;
        while i < n {
            let v = it.next();
            let want = if d < 0 { b - i as isize } else { b + i as isize };
            assert!(num_eq(v, want as f64), "range yields begin, begin+-1, ... in order");
            i += 1;
        }
        kani::cover!(n == 4 && d < 0, "reach-descending");
        kani::cover!(n == 4 && d > 0 && e == isize::MAX, "reach-ascending-to-max");
        kani::cover!(n == 0, "reach-empty");
        assert!(it.next().is_none(), "range ends after |end-begin| values");
        assert!(it.next().is_none(), "None is sticky");
    }

    /// ObjTupleIter over n <= 3 elements (payloads symbolic): element i at call i, then None forever.
    #[kani::proof]
    #[kani::unwind(6)]
    fn c18_tuple_iter_visits_each_once() {
        let vals: [f64; 3] = kani::any();
        let mut n = 0usize;
        while n <= 3 {
            let mut elems = Vec::with_capacity(3);
            let mut k = 0;
            while k < n {
                elems.push(Value::Number(vals[k]));
                k += 1;
            }
            let t = leak_gc(ObjTuple::new(Gc::dangling(), elems));
            let mut it = ObjTupleIter::new(Gc::dangling(), t);
            let mut i = 0;
            while i < n {
                assert!(num_eq(it.next(), vals[i]), "tuple yields element i at call i");
                i += 1;
            }
            assert!(it.next().is_none(), "tuple iteration ends after len elements");
            assert!(it.next().is_none(), "None is sticky");
            n += 1;
        }
        kani::cover!(true, "reach-end");
    }

    /// ObjVecIter with the vector mutated between `next` calls. STEPS operations, each chosen
    /// symbolically from {next, push(x), pop}; reference model: an index cursor that advances only when an
    /// element is returned, reading the vector as it is at the time of the call (index-based iteration).
    fn vec_iter_steps<const STEPS: usize>(init: usize) {
        let vals: [f64; 8] = kani::any();
        let mut model: [f64; 8] = [0.0; 8];
        let mut mlen = 0usize;
        let mut elems = Vec::with_capacity(8);
        let mut k = 0;
        while k < init {
            elems.push(Value::Number(vals[k]));
            model[k] = vals[k];
            k += 1;
        }
        mlen = init;
        let v = leak_gc(RefCell::new(ObjVec::with_elements(Gc::dangling(), elems)));
        let mut it = ObjVecIter::new(Gc::dangling(), v);
        let mut cursor = 0usize;
        let mut s = 0usize;
        let mut nexts_after_end = 0usize;
        let mut served_after_end = false;
        while s < STEPS {
            let op: u8 = kani::any();
            kani::assume(op < 3);
            if op == 0 {
                let got = it.next();
                if cursor < mlen {
                    assert!(num_eq(got, model[cursor]), "next yields the element at the cursor index");
                    if nexts_after_end > 0 {
                        served_after_end = true;
                    }
                    cursor += 1;
                } else {
                    assert!(got.is_none(), "next past the end yields None");
                    nexts_after_end += 1;
                }
            } else if op == 1 {
                if mlen < 8 {
                    let x = vals[init + s];
                    v.borrow_mut().elements.push(Value::Number(x));
                    model[mlen] = x;
                    mlen += 1;
                }
            } else {
                let popped = v.borrow_mut().elements.pop();
                if mlen > 0 {
                    assert!(num_eq(popped, model[mlen - 1]), "pop returns the last element");
                    mlen -= 1;
                } else {
                    assert!(popped.is_none(), "pop on empty");
                }
            }
            s += 1;
        }
        kani::cover!(served_after_end, "reach-element-served-after-exhaustion-and-push");
        kani::cover!(nexts_after_end >= 2, "reach-repeated-none");
        assert!(v.borrow().elements.len() == mlen, "vector length equals model");
    }

    #[kani::proof]
    #[kani::unwind(10)]
    fn c18_vec_iter_mutation_from_empty() {
        vec_iter_steps::<5>(0);
    }

    #[kani::proof]
    #[kani::unwind(10)]
    fn c18_vec_iter_mutation_from_two() {
        vec_iter_steps::<5>(2);
    }

    /// Twin: must FAIL.
    #[kani::proof]
    #[kani::unwind(7)]
    fn c18_twin_must_fail() {
        let b: isize = kani::any();
        let r = leak_gc(ObjRange::new(Gc::dangling(), b, b));
        let mut it = ObjRangeIter::new(Gc::dangling(), r);
        let _ = it.next();
        assert!(false, "twin");
    }
}
