
// ---- verif C07: member lookup, binding, inheritance, super, static (appended to vm.rs) ------------
// The interpreter steps behind classes, on a bare Vm with one running fiber: GetProperty / SetProperty,
// Invoke, Inherit, Method / StaticMethod, DefineClass, GetSuper / SuperInvoke, Construct. Run with std's
// HashMap replaced by the association-list reference model (DESIGN.md 2.10): method and field tables are
// the real `HashMap<Gc<ObjString>, Value, _>` fields of the real ObjClass / ObjInstance, operated on by
// the real interpreter code; only the container behind the std API is the model.
// Control (which member exists where) is concrete per harness; field values are symbolic.
#[cfg(kani)]
mod verif_c07 {
    use super::verif_vm::*;
    use super::*;
    use crate::memory::verif_mem::Placed;
    use crate::verif_stubs::*;

    fn num(v: Value, want: f64) -> bool {
        matches!(v, Value::Number(x) if x.to_bits() == want.to_bits())
    }

    /// `Vm::read_string` is stubbed: it consumes the two operand bytes with the real `read_short` and
    /// returns the member name from a static instead of `active_chunk.constants[index]` (a pointer read
    /// back from the untyped constant vector loses its identity in CBMC - DESIGN.md 2.9).
    static mut KANI_NAME: Option<Gc<ObjString>> = None;
    impl Vm {
        fn read_string_stub(&mut self) -> Gc<ObjString> {
            let _ = self.read_short();
            unsafe { KANI_NAME.unwrap() }
        }
    }
    fn name_is(n: Gc<ObjString>) {
        unsafe {
            KANI_NAME = Some(n);
        }
    }

    /// Typed storage (see verif_mem::Placed) for everything static in the scenarios.
    pub(super) struct Store {
        run: FiberStore,
        f_m: FiberStore,
        f_n: FiberStore,
        f_m2: FiberStore,
        f_fld: FiberStore,
        names: [Option<Placed<ObjString>>; 5],
        meta: Option<Placed<ObjClass>>,
        base: Option<Placed<ObjClass>>,
        derived: Option<Placed<ObjClass>>,
        derived_meta: Option<Placed<ObjClass>>,
        inst: Option<Placed<RefCell<ObjInstance>>>,
    }
    pub(super) fn store() -> Store {
        Store {
            run: FiberStore::empty(),
            f_m: FiberStore::empty(),
            f_n: FiberStore::empty(),
            f_m2: FiberStore::empty(),
            f_fld: FiberStore::empty(),
            names: [None, None, None, None, None],
            meta: None,
            base: None,
            derived: None,
            derived_meta: None,
            inst: None,
        }
    }

    pub(super) struct World {
        vm: Vm,
        run: FiberParts,
        code: *const u8,
        /// member names: m, n (methods of Base), f (a field), s (a static method), x (defined nowhere)
        m: Gc<ObjString>,
        n: Gc<ObjString>,
        f: Gc<ObjString>,
        s: Gc<ObjString>,
        x: Gc<ObjString>,
        /// Base.m, Base.n, an overriding m, and a closure stored in a field
        cm: Gc<ObjClosure>,
        cn: Gc<ObjClosure>,
        cm2: Gc<ObjClosure>,
        cfld: Gc<ObjClosure>,
        meta: Gc<ObjClass>,
        base: Gc<ObjClass>,
    }

    fn mk_name(st: &mut Store, i: usize, text: &str, hash: u64) -> Gc<ObjString> {
        st.names[i] = Some(Placed::new(ObjString::new(Gc::dangling(), text, hash)));
        st.names[i].as_mut().unwrap().gc()
    }

    /// Base { m() {..} n() {..} } with the root metaclass `meta` (self-metaclassed); a running script
    /// fiber whose frame holds [closure].
    pub(super) fn world(st: &mut Store) -> World {
        let mut vm = bare_vm();
        let run = st.run.init(vec![0u8; 16], 1);
        activate(&mut vm, &run);
        vm.push(Value::ObjClosure(run.closure));
        let code = run.chunk.code.as_ptr();
        let m = mk_name(st, 0, "m", 11);
        let n = mk_name(st, 1, "n", 12);
        let f = mk_name(st, 2, "f", 13);
        let s = mk_name(st, 3, "s", 14);
        let x = mk_name(st, 4, "x", 15);
        let cm = st.f_m.init(vec![0u8; 4], 1).closure;
        let cn = st.f_n.init(vec![0u8; 4], 1).closure;
        let cm2 = st.f_m2.init(vec![0u8; 4], 1).closure;
        let cfld = st.f_fld.init(vec![0u8; 4], 1).closure;
        st.meta = Some(Placed::new(ObjClass {
            name: Gc::dangling(),
            metaclass: Gc::dangling(),
            superclass: None,
            methods: object::new_obj_string_value_map(),
        }));
        let meta = st.meta.as_mut().unwrap().gc();
        let mut methods = object::new_obj_string_value_map();
        methods.insert(m, Value::ObjClosure(cm));
        methods.insert(n, Value::ObjClosure(cn));
        st.base = Some(Placed::new(ObjClass { name: m, metaclass: meta, superclass: None, methods }));
        let base = st.base.as_mut().unwrap().gc();
        World { vm, run, code, m, n, f, s, x, cm, cn, cm2, cfld, meta, base }
    }

    fn new_instance(st: &mut Store, class: Gc<ObjClass>) -> Gc<RefCell<ObjInstance>> {
        st.inst = Some(Placed::new(RefCell::new(ObjInstance::new(class))));
        st.inst.as_mut().unwrap().gc()
    }

    fn top_frame_closure(w: &World) -> Gc<ObjClosure> {
        w.run.fiber.borrow().frames.last().unwrap().closure
    }
    fn frames(w: &World) -> usize {
        w.run.fiber.borrow().frames.len()
    }

    macro_rules! c07_proof {
        ($name:ident, $body:block) => {
            #[kani::proof]
            #[kani::unwind(6)]
            #[kani::stub(std::fmt::format, fmt_stub)]
            #[kani::stub(crate::vm::Vm::new_root_obj_err_from_error, crate::vm::verif_vm::err_instance_stub)]
            #[kani::stub(crate::vm::Vm::new_error_from_value, crate::vm::verif_vm::error_from_value_stub)]
            #[kani::stub(crate::memory::Heap::collect_if_required, crate::memory::verif_mem::collect_if_required_stub)]
            #[kani::stub(Vm::read_string, Vm::read_string_stub)]
            fn $name() $body
        };
    }

    // Member access on an instance: own fields first, otherwise the class's method bound to the very
    // instance it was taken from; a field may shadow a method; an unknown member is an error.
    c07_proof!(c07_member_access_fields_first_then_bound_method, {
        let mut st = store();
        let mut w = world(&mut st);
        let inst = new_instance(&mut st, w.base);
        let xv: f64 = kani::any();
        let yv: f64 = kani::any();
        // inst.f = xv   (SetProperty: stack [.., inst, value] -> [.., value])
        w.vm.push(Value::ObjInstance(inst));
        w.vm.push(Value::Number(xv));
        name_is(w.f);
        w.vm.ip = w.code;
        let r = w.vm.set_property_impl();
        assert!(r.is_ok() && w.vm.stack_size() == 2 && num(w.vm.peek(0), xv), "assignment to a field evaluates to the value");
        w.vm.pop();
        // inst.f
        w.vm.push(Value::ObjInstance(inst));
        name_is(w.f);
        w.vm.ip = w.code;
        let r = w.vm.get_property_impl();
        assert!(r.is_ok() && w.vm.stack_size() == 2 && num(w.vm.peek(0), xv), "a field reads back what was stored");
        w.vm.pop();
        // inst.m  -> bound method
        w.vm.push(Value::ObjInstance(inst));
        name_is(w.m);
        w.vm.ip = w.code;
        let r = w.vm.get_property_impl();
        kani::cover!(r.is_ok(), "reach-bound");
        assert!(r.is_ok() && w.vm.stack_size() == 2, "a method taken as a value replaces the receiver on the stack");
        match w.vm.peek(0) {
            Value::ObjBoundMethod(b) => {
                assert!(matches!(b.borrow().receiver, Value::ObjInstance(i) if i == inst), "it stays bound to the instance it was taken from");
                assert!(b.borrow().method == w.cm, "and is the method the class defines under that name");
            }
            _ => assert!(false, "a method taken as a value is a bound method"),
        }
        w.vm.pop();
        // a field named like a method shadows it
        w.vm.push(Value::ObjInstance(inst));
        w.vm.push(Value::Number(yv));
        name_is(w.m);
        w.vm.ip = w.code;
        let r = w.vm.set_property_impl();
        assert!(r.is_ok());
        w.vm.pop();
        w.vm.push(Value::ObjInstance(inst));
        name_is(w.m);
        w.vm.ip = w.code;
        let r = w.vm.get_property_impl();
        assert!(r.is_ok() && num(w.vm.peek(0), yv), "own fields are found before methods");
        assert!(matches!(w.base.methods.get(&w.m), Some(Value::ObjClosure(c)) if *c == w.cm), "the class's method table is untouched by the field");
        w.vm.pop();
        // unknown member
        w.vm.push(Value::ObjInstance(inst));
        name_is(w.x);
        w.vm.ip = w.code;
        let r = w.vm.get_property_impl();
        assert!(r.is_err(), "an unknown member is reported (no handler: the error ends the run)");
        std::mem::forget(r);
        std::mem::forget(w);
    });

    // Invoke: a field holding a function is called before a method of that name; otherwise the method of
    // the receiver's class runs with the receiver in slot 0; an unknown member is an error and calls nothing.
    c07_proof!(c07_invoke_dispatches_field_then_method, {
        let mut st = store();
        let mut w = world(&mut st);
        let inst = new_instance(&mut st, w.base);
        // inst.n()  -> Base.n
        w.vm.push(Value::ObjInstance(inst));
        w.vm.ip = w.code;
        let r = w.vm.invoke(w.n, 0);
        kani::cover!(r.is_ok(), "reach");
        assert!(r.is_ok() && frames(&w) == 2 && top_frame_closure(&w) == w.cn, "the class's method of that name runs");
        assert!(w.run.fiber.borrow().frames[1].slot_base == 1, "with the receiver as its slot 0");
        assert!(matches!(w.run.fiber.borrow().stack[1], Value::ObjInstance(i) if i == inst), "the receiver is the instance");
        // back in the script
        w.run.fiber.borrow_mut().frames.pop();
        w.vm.load_frame();
        w.vm.pop();
        // a field named n holding a function wins over the method
        inst.borrow_mut().fields.insert(w.n, Value::ObjClosure(w.cfld));
        w.vm.push(Value::ObjInstance(inst));
        let r = w.vm.invoke(w.n, 0);
        assert!(r.is_ok() && frames(&w) == 2 && top_frame_closure(&w) == w.cfld, "a field holding a function is called first");
        w.run.fiber.borrow_mut().frames.pop();
        w.vm.load_frame();
        w.vm.pop();
        // unknown member
        w.vm.push(Value::ObjInstance(inst));
        let r = w.vm.invoke(w.x, 0);
        assert!(r.is_err() && frames(&w) == 1, "an unknown member is an error and nothing is called");
        std::mem::forget(r);
        std::mem::forget(w);
    });

    /// class Derived < Base { m() {..} }  built by the real Inherit / Method / DefineClass steps.
    fn define_derived(st: &mut Store, w: &mut World, override_m: bool, static_s: bool) -> Gc<ObjClass> {
        st.derived_meta = Some(Placed::new(ObjClass { name: w.s, metaclass: w.meta, superclass: None, methods: object::new_obj_string_value_map() }));
        st.derived = Some(Placed::new(ObjClass { name: w.n, metaclass: w.meta, superclass: None, methods: object::new_obj_string_value_map() }));
        let class = st.derived.as_mut().unwrap().unique_root();
        let metaclass = st.derived_meta.as_mut().unwrap().unique_root();
        w.vm.working_class_def = Some(ClassDef::new(class, metaclass));
        w.vm.push(Value::None); // the slot DeclareClass reserves for the class
        // `< Base`: stack [.., superclass, slot] -> Inherit pops one
        w.vm.push(Value::ObjClass(w.base));
        w.vm.push(Value::None);
        let r = w.vm.inherit_impl();
        assert!(r.is_ok(), "inheriting from a class succeeds");
        w.vm.push(Value::None); // the class variable, re-read before the class body
        if override_m {
            w.vm.push(Value::ObjClosure(w.cm2));
            let r = w.vm.define_method(w.m, false);
            assert!(r.is_ok());
        }
        if static_s {
            w.vm.push(Value::ObjClosure(w.cfld));
            let r = w.vm.define_method(w.s, true);
            assert!(r.is_ok());
        }
        w.vm.define_class_impl();
        match w.vm.peek(0) {
            Value::ObjClass(c) => c,
            _ => {
                assert!(false, "DefineClass leaves the class in its slot");
                unreachable!()
            }
        }
    }

    // Inheritance: the derived class sees the methods of its declared superclass, its own definition of
    // m is the nearest one, the superclass is untouched, and `super.m` from the derived class's method
    // is the SUPERCLASS's m bound to the same receiver.
    c07_proof!(c07_inherit_override_and_super, {
        let mut st = store();
        let mut w = world(&mut st);
        let d = define_derived(&mut st, &mut w, true, false);
        kani::cover!(true, "reach-defined");
        assert!(d.superclass == Some(w.base), "the declared superclass is recorded");
        assert!(matches!(d.methods.get(&w.n), Some(Value::ObjClosure(c)) if *c == w.cn), "inherited method found through the derived class");
        assert!(matches!(d.methods.get(&w.m), Some(Value::ObjClosure(c)) if *c == w.cm2), "the overriding definition is the nearest one");
        assert!(matches!(w.base.methods.get(&w.m), Some(Value::ObjClosure(c)) if *c == w.cm), "overriding leaves the superclass's method alone");
        assert!(d.metaclass != w.meta && d.metaclass.methods.get(&w.m).is_none(), "instance methods are not callable on the class itself");
        let inst = new_instance(&mut st, d);
        // inst.m() runs Derived.m; inst.n() runs Base.n
        w.vm.push(Value::ObjInstance(inst));
        w.vm.ip = w.code;
        let r = w.vm.invoke(w.m, 0);
        assert!(r.is_ok() && top_frame_closure(&w) == w.cm2, "dispatch picks the derived class's method");
        w.run.fiber.borrow_mut().frames.pop();
        w.vm.load_frame();
        // still on the stack: the receiver. `super.m` as a value: stack [.., receiver, superclass]
        w.vm.push(Value::ObjClass(d.superclass.unwrap()));
        name_is(w.m);
        w.vm.ip = w.code;
        let r = w.vm.get_super_impl();
        assert!(r.is_ok(), "super.m exists");
        match w.vm.peek(0) {
            Value::ObjBoundMethod(b) => {
                assert!(b.borrow().method == w.cm, "super.m is the declared superclass's method, not the receiver's own");
                assert!(matches!(b.borrow().receiver, Value::ObjInstance(i) if i == inst), "bound to the same receiver");
            }
            _ => assert!(false, "super.m as a value is a bound method"),
        }
        w.vm.pop();
        // `super.m()`: SuperInvoke pops the superclass and dispatches from it with the receiver below
        w.vm.push(Value::ObjInstance(inst));
        let r = w.vm.invoke_from_class(d.superclass.unwrap(), w.m, 0);
        assert!(r.is_ok() && frames(&w) == 2 && top_frame_closure(&w) == w.cm, "super.m() runs the declared superclass's method");
        assert!(matches!(w.run.fiber.borrow().stack[w.run.fiber.borrow().frames[1].slot_base], Value::ObjInstance(i) if i == inst), "on the same receiver");
        std::mem::forget(r);
        std::mem::forget(w);
    });

    // Static methods are callable through the class (Self = the class invoked through), instance methods
    // are not; an inherited name not overridden still resolves to the superclass's method.
    c07_proof!(c07_static_method_through_class, {
        let mut st = store();
        let mut w = world(&mut st);
        let d = define_derived(&mut st, &mut w, false, true);
        assert!(matches!(d.methods.get(&w.m), Some(Value::ObjClosure(c)) if *c == w.cm), "not overridden: the superclass's method");
        // D.s()
        w.vm.ip = w.code;
        let r = w.vm.invoke(w.s, 0);
        kani::cover!(r.is_ok(), "reach");
        assert!(r.is_ok() && frames(&w) == 2 && top_frame_closure(&w) == w.cfld, "a static method is found through the class value");
        assert!(matches!(w.run.fiber.borrow().stack[w.run.fiber.borrow().frames[1].slot_base], Value::ObjClass(c) if c == d), "with the class it was invoked through in slot 0");
        w.run.fiber.borrow_mut().frames.pop();
        w.vm.load_frame();
        // D.m() - an instance method - is not there
        let r = w.vm.invoke(w.m, 0);
        assert!(r.is_err() && frames(&w) == 1, "an instance method is not callable through the class");
        std::mem::forget(r);
        std::mem::forget(w);
    });

    // Superclass must be a class.
    c07_proof!(c07_non_class_superclass_is_an_error, {
        let mut st = store();
        let mut w = world(&mut st);
        let v: f64 = kani::any();
        st.derived_meta = Some(Placed::new(ObjClass { name: w.s, metaclass: w.meta, superclass: None, methods: object::new_obj_string_value_map() }));
        st.derived = Some(Placed::new(ObjClass { name: w.n, metaclass: w.meta, superclass: None, methods: object::new_obj_string_value_map() }));
        let class = st.derived.as_mut().unwrap().unique_root();
        let metaclass = st.derived_meta.as_mut().unwrap().unique_root();
        w.vm.working_class_def = Some(ClassDef::new(class, metaclass));
        w.vm.push(Value::Number(v));
        w.vm.push(Value::None);
        let r = w.vm.inherit_impl();
        kani::cover!(true, "reach");
        assert!(r.is_err(), "inheriting from a non-class is reported");
        assert!(w.vm.working_class_def.as_ref().unwrap().class.superclass.is_none(), "and records no superclass");
        std::mem::forget(r);
        std::mem::forget(w);
    });

    /// Twin: must FAIL.
    c07_proof!(c07_twin_must_fail, {
        let mut st = store();
        let mut w = world(&mut st);
        let inst = new_instance(&mut st, w.base);
        w.vm.push(Value::ObjInstance(inst));
        let _ = w.vm.invoke(w.n, 0);
        assert!(false, "twin");
    });
}
