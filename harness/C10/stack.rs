
// ---- verif C10/C02: the value stack against a Vec-style model (appended to stack.rs) --------------
// The same harness is run in the checked and in the optimised configuration: each is shown equal to
// the same reference model (under the model's precondition), hence equal to each other.
#[cfg(kani)]
mod verif_stack {
    use super::*;
    use crate::value::Value;

    fn num(v: &Value, want: f64) -> bool {
        matches!(v, Value::Number(x) if x.to_bits() == want.to_bits())
    }

    /// STEPS operations, each symbolically chosen from {push x, pop, peek d, peek_mut d := x, truncate n,
    /// clear}; arguments symbolic. Precondition (what a correct compiler guarantees): no push on a full
    /// stack, no pop/peek below the bottom, no truncate beyond the length. Within it the real stack and the
    /// model agree on every returned value and on the length after every operation, and CBMC's bounds
    /// checks show no access leaves the backing array.
    fn stack_vs_model<const N: usize, const STEPS: usize>() {
        let mut s: Stack<Value, N> = Stack::new();
        let mut model: [f64; N] = [0.0; N];
        let mut mlen: usize = 0;
        let mut step = 0;
        let mut max_len = 0usize;
        while step < STEPS {
            let op: u8 = kani::any();
            kani::assume(op < 6);
            let x: f64 = kani::any();
            let d: usize = kani::any();
            if op == 0 {
                kani::assume(mlen < N);
                s.push(Value::Number(x));
                model[mlen] = x;
                mlen += 1;
            } else if op == 1 {
                if cfg!(any(debug_assertions, feature = "safe_stack")) {
                    // the checked build answers None on an empty stack
                    let got = s.pop();
                    if mlen == 0 {
                        assert!(got.is_none(), "checked pop on an empty stack is None");
                    } else {
                        assert!(matches!(got, Some(v) if num(&v, model[mlen - 1])), "pop returns the top");
                        mlen -= 1;
                    }
                } else {
                    kani::assume(mlen > 0);
                    let got = s.pop();
                    assert!(matches!(got, Some(v) if num(&v, model[mlen - 1])), "pop returns the top");
                    mlen -= 1;
                }
            } else if op == 2 {
                kani::assume(d < mlen);
                assert!(num(s.peek(d), model[mlen - 1 - d]), "peek(d) reads d slots below the top");
            } else if op == 3 {
                kani::assume(d < mlen);
                *s.peek_mut(d) = Value::Number(x);
                model[mlen - 1 - d] = x;
            } else if op == 4 {
                if cfg!(any(debug_assertions, feature = "safe_stack")) {
                    // the checked build clamps
                    s.truncate(d);
                    if d < mlen {
                        mlen = d;
                    }
                } else {
                    kani::assume(d <= mlen);
                    s.truncate(d);
                    mlen = d;
                }
            } else {
                s.clear();
                mlen = 0;
            }
            assert!(s.len() == mlen, "length follows the model");
            if mlen > 0 {
                assert!(num(&s[mlen - 1], model[mlen - 1]), "top slot holds the model's top");
                assert!(num(&s[0], model[0]), "bottom slot holds the model's bottom");
            }
            if mlen > max_len {
                max_len = mlen;
            }
            step += 1;
        }
        kani::cover!(max_len >= 3, "reach-depth-3");
        kani::cover!(max_len >= 1 && mlen == 0, "reach-emptied");
        std::mem::forget(s);
    }

    #[kani::proof]
    #[kani::unwind(8)]
    fn stack_matches_model_small() {
        stack_vs_model::<4, 6>();
    }

    /// The instantiation the interpreter uses (16384 slots), 3 operations.
    #[kani::proof]
    #[kani::unwind(5)]
    fn stack_matches_model_real_size() {
        stack_vs_model::<16384, 3>();
    }

    /// Twin: must FAIL.
    #[kani::proof]
    #[kani::unwind(4)]
    fn stack_twin_must_fail() {
        let mut s: Stack<Value, 4> = Stack::new();
        let x: f64 = kani::any();
        s.push(Value::Number(x));
        let _ = s.pop();
        assert!(false, "twin");
    }
}
