
// ---- verif C13/C02: index arithmetic kernels (appended to value.rs) ------------------------------
#[cfg(kani)]
mod verif_c13 {
    use super::*;
    use crate::verif_stubs::*;

    /// Reference model (written from the documented semantics, in i128 so that it cannot overflow):
    /// an index is a number with no fractional part; negative indices count from the end;
    /// valid iff -bound <= n < bound.
    fn model_index(n: f64, bound: isize) -> Result<usize, ErrorKind> {
        if n != n || n.trunc() != n {
            return Err(ErrorKind::ValueError);
        }
        // |n| >= 2^63 (incl. +-inf) can never be within [-bound, bound)
        if n >= 9223372036854775808.0 || n < -9223372036854775808.0 {
            return Err(ErrorKind::IndexError);
        }
        let ni = n as i128;
        let b = bound as i128;
        if ni < -b || ni >= b {
            return Err(ErrorKind::IndexError);
        }
        Ok(if ni < 0 { (ni + b) as usize } else { ni as usize })
    }

    /// try_as_bounded_index: for every f64 and every bound >= 0: no overflow/panic, Ok(i) => i < bound,
    /// result and error class equal the model.
    #[kani::proof]
    #[kani::unwind(3)]
    #[kani::stub(std::fmt::format, fmt_stub)]
    fn c13_bounded_index_matches_model() {
        let n: f64 = kani::any();
        let bound: isize = kani::any();
        kani::assume(bound >= 0);
        let got = Value::Number(n).try_as_bounded_index(bound, "Vec");
        let want = model_index(n, bound);
        kani::cover!(got.is_ok(), "reach-ok");
        kani::cover!(got.is_ok() && n < 0.0, "reach-ok-negative");
        kani::cover!(matches!(&got, Err(e) if e.kind() == ErrorKind::IndexError), "reach-index-error");
        kani::cover!(matches!(&got, Err(e) if e.kind() == ErrorKind::ValueError), "reach-value-error");
        match (got, want) {
            (Ok(i), Ok(j)) => {
                assert!((i as isize) < bound && (i as isize) >= 0, "index within bound");
                assert!(i == j, "index equals model");
            }
            (Err(e), Err(k)) => assert!(e.kind() == k, "error class equals model"),
            (Ok(_), Err(_)) => assert!(false, "accepted an index the model rejects"),
            (Err(_), Ok(_)) => assert!(false, "rejected an index the model accepts"),
        }
    }

    /// Non-numbers are a TypeError (one representative per scalar kind; heap kinds share the arm).
    #[kani::proof]
    #[kani::unwind(3)]
    #[kani::stub(std::fmt::format, fmt_stub)]
    fn c13_bounded_index_non_number() {
        let bound: isize = kani::any();
        kani::assume(bound >= 0);
        let b: bool = kani::any();
        let r1 = Value::Boolean(b).try_as_bounded_index(bound, "Vec");
        let r2 = Value::None.try_as_bounded_index(bound, "Vec");
        kani::cover!(true, "reach");
        assert!(matches!(r1, Err(e) if e.kind() == ErrorKind::TypeError), "bool index is a TypeError");
        assert!(matches!(r2, Err(e) if e.kind() == ErrorKind::TypeError), "nil index is a TypeError");
    }

    /// validate_integer: Ok(i) iff the number has no fractional part (NaN rejected), and then i is the
    /// saturating conversion (so that +-inf / +-2^63 cannot wrap into a valid index).
    #[kani::proof]
    #[kani::unwind(3)]
    #[kani::stub(std::fmt::format, fmt_stub)]
    fn c13_validate_integer_model() {
        let n: f64 = kani::any();
        let got = utils::validate_integer(Value::Number(n));
        kani::cover!(got.is_ok(), "reach-ok");
        kani::cover!(got.is_err(), "reach-err");
        match got {
            Ok(i) => {
                assert!(n == n && n.trunc() == n, "only integral numbers accepted");
                if n >= 9223372036854775808.0 {
                    assert!(i == isize::MAX, "saturates high");
                } else if n < -9223372036854775808.0 {
                    assert!(i == isize::MIN, "saturates low");
                } else {
                    assert!(i as i128 == n as i128, "exact conversion");
                }
            }
            Err(e) => {
                assert!(n != n || n.trunc() != n, "integral numbers are not rejected");
                assert!(e.kind() == ErrorKind::ValueError, "fractional number is a ValueError");
            }
        }
    }

    /// Twin: must FAIL.
    #[kani::proof]
    #[kani::unwind(3)]
    #[kani::stub(std::fmt::format, fmt_stub)]
    fn c13_value_twin_must_fail() {
        let n: f64 = kani::any();
        let bound: isize = kani::any();
        kani::assume(bound >= 0);
        let _ = Value::Number(n).try_as_bounded_index(bound, "Vec");
        assert!(false, "twin");
    }
}
