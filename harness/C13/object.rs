
// ---- verif C13/C02: range slicing and string cursors (appended to object.rs) ---------------------
#[cfg(kani)]
mod verif_c13_obj {
    use super::*;
    use crate::memory::verif_mem::leak_gc;
    use crate::verif_stubs::*;

    /// Reference model of range slicing over a sequence of `limit` items (i128: cannot overflow):
    /// negative bounds count from the end, the start must denote an existing item, the end may equal
    /// the length, an end before the start gives the empty slice at the start.
    fn model_range(begin: isize, end: isize, limit: isize) -> Option<(usize, usize)> {
        let (b, e, l) = (begin as i128, end as i128, limit as i128);
        let b = if b < 0 { b + l } else { b };
        if b < 0 || b >= l {
            return None;
        }
        let e = if e < 0 { e + l } else { e };
        if e < 0 || e > l {
            return None;
        }
        Some((b as usize, if e >= b { e as usize } else { b as usize }))
    }

    /// make_bounded_range: every begin/end (incl. isize::MIN/MAX), every limit >= 0: no overflow,
    /// Ok((b,e)) => b <= e <= limit (the slices vm.rs takes with them are in range), result == model,
    /// failures are IndexErrors.
    #[kani::proof]
    #[kani::unwind(3)]
    #[kani::stub(std::fmt::format, fmt_stub)]
    fn c13_bounded_range_matches_model() {
        let begin: isize = kani::any();
        let end: isize = kani::any();
        let limit: isize = kani::any();
        kani::assume(limit >= 0);
        let r = ObjRange::new(Gc::dangling(), begin, end);
        let got = r.make_bounded_range(limit, "Vec");
        let want = model_range(begin, end, limit);
        kani::cover!(got.is_ok(), "reach-ok");
        kani::cover!(got.is_ok() && begin < 0 && end < 0, "reach-ok-negative");
        kani::cover!(matches!(got, Ok((b, e)) if b == e), "reach-empty");
        kani::cover!(got.is_err(), "reach-err");
        match (got, want) {
            (Ok((b, e)), Some((mb, me))) => {
                assert!(b <= e && e <= limit as usize, "slice bounds ordered and within the sequence");
                assert!(b == mb && e == me, "slice bounds equal model");
            }
            (Err(err), None) => assert!(err.kind() == ErrorKind::IndexError, "out-of-range slice is an IndexError"),
            (Ok(_), None) => assert!(false, "accepted a range the model rejects"),
            (Err(_), Some(_)) => assert!(false, "rejected a range the model accepts"),
        }
    }

    fn is_cont(b: u8) -> bool {
        b & 0xC0 == 0x80
    }

    fn mk_str(bytes: &[u8]) -> Option<Gc<ObjString>> {
        match std::str::from_utf8(bytes) {
            Ok(s) => Some(leak_gc(ObjString::new(Gc::dangling(), s, 0))),
            Err(_) => None,
        }
    }

    /// ObjStringIter::next over every valid UTF-8 string of exactly N bytes: the (begin,end) pairs tile
    /// the string, each tile starts on a character boundary and contains exactly one character
    /// (one lead byte followed by continuation bytes), then None forever.
    fn string_iter_tiles<const N: usize>() -> usize {
        let bytes: [u8; N] = kani::any();
        let s = match mk_str(&bytes) {
            Some(s) => s,
            None => return usize::MAX,
        };
        let mut it = ObjStringIter::new(Gc::dangling(), s);
        let mut pos = 0usize;
        let mut steps = 0usize;
        while pos < N {
            let nx = it.next();
            let (b, e) = match nx {
                Some(t) => t,
                None => {
                    assert!(false, "iterator ended before the end of the string");
                    return usize::MAX;
                }
            };
            assert!(b == pos, "tile begins where the previous one ended");
            assert!(e > b && e <= N, "tile is non-empty and inside the string");
            assert!(!is_cont(bytes[b]), "tile begins on a character boundary");
            let mut k = b + 1;
            while k < e {
                assert!(is_cont(bytes[k]), "tile holds a single character");
                k += 1;
            }
            assert!(e == N || !is_cont(bytes[e]), "tile ends on a character boundary");
            pos = e;
            steps += 1;
        }
        assert!(it.next().is_none(), "exhausted iterator yields None");
        assert!(it.next().is_none(), "None is sticky");
        steps
    }

    #[kani::proof]
    #[kani::unwind(6)]
    fn c13_string_iter_tiles_len0_to_2() {
        let s0 = string_iter_tiles::<0>();
        let s1 = string_iter_tiles::<1>();
        let s2 = string_iter_tiles::<2>();
        kani::cover!(s0 == 0 && s1 == 1 && s2 == 2, "reach-all-ascii");
        kani::cover!(s2 == 1, "reach-two-byte-character");
    }

    #[kani::proof]
    #[kani::unwind(6)]
    fn c13_string_iter_tiles_len3() {
        let s = string_iter_tiles::<3>();
        kani::cover!(s == 3, "reach-all-ascii");
        kani::cover!(s == 1, "reach-three-byte-character");
        kani::cover!(s == 2, "reach-mixed");
    }

    #[kani::proof]
    #[kani::unwind(7)]
    fn c13_string_iter_tiles_len4() {
        let s = string_iter_tiles::<4>();
        kani::cover!(s == 4, "reach-all-ascii");
        kani::cover!(s == 1, "reach-four-byte-character");
        kani::cover!(s == 2, "reach-two-characters");
    }

    /// validate_char_boundary(pos): Ok iff pos is 0, len, or the byte at pos is not a continuation byte;
    /// positions beyond the end are rejected (IndexError), never a panic.
    #[kani::proof]
    #[kani::unwind(6)]
    #[kani::stub(std::fmt::format, fmt_stub)]
    fn c13_validate_char_boundary_model() {
        let bytes: [u8; 3] = kani::any();
        let s = match mk_str(&bytes) {
            Some(s) => s,
            None => return,
        };
        let pos: usize = kani::any();
        let got = s.validate_char_boundary(pos, "string index");
        let want = pos == 3 || (pos < 3 && !is_cont(bytes[pos]));
        kani::cover!(got.is_ok() && pos == 1, "reach-ok-inner");
        kani::cover!(got.is_err() && pos < 3, "reach-mid-character");
        kani::cover!(got.is_err() && pos > 3, "reach-beyond-end");
        assert!(got.is_ok() == want, "boundary check equals model");
        if let Err(e) = got {
            assert!(e.kind() == ErrorKind::IndexError, "mid-character position is an IndexError");
        }
    }

    /// Twin: must FAIL.
    #[kani::proof]
    #[kani::unwind(3)]
    #[kani::stub(std::fmt::format, fmt_stub)]
    fn c13_object_twin_must_fail() {
        let begin: isize = kani::any();
        let end: isize = kani::any();
        let limit: isize = kani::any();
        kani::assume(limit >= 0);
        let r = ObjRange::new(Gc::dangling(), begin, end);
        let _ = r.make_bounded_range(limit, "Vec");
        assert!(false, "twin");
    }
}
