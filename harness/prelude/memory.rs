// ---- verif prelude (cfg(kani) only; prepended to memory.rs in the scratch copy) ----------------
// `thread_local!` + `LocalKey::with` ICE the Kani compiler. Under cfg(kani) the macro is shadowed
// (macro_rules textual scoping) by one that expands the HEAP declaration to a const-initialised
// plain static with a `.with()` method. The real source lines below are untouched.
#[cfg(kani)]
pub(crate) struct KaniLocalKey<T: 'static> {
    cell: T,
}
#[cfg(kani)]
unsafe impl<T: 'static> Sync for KaniLocalKey<T> {}
#[cfg(kani)]
impl<T: 'static> KaniLocalKey<T> {
    pub(crate) fn with<F, R>(&'static self, f: F) -> R
    where
        F: FnOnce(&T) -> R,
    {
        f(&self.cell)
    }
}
#[cfg(kani)]
macro_rules! thread_local {
    (static $name:ident : $t:ty = $init:expr ;) => {
        static $name: KaniLocalKey<$t> = KaniLocalKey {
            cell: RefCell::new(Heap {
                collection_threshold: common::HEAP_INIT_BYTES_MAX,
                bytes_allocated: 0,
                objects: Vec::new(),
            }),
        };
    };
}
// ---- end of verif prelude ----------------------------------------------------------------------
