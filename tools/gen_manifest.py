#!/usr/bin/env python3
"""Regenerates /verif/MANIFEST.json from the per-property spec files (harness/<ID>/spec.json,
key "manifest") so the manifest can never drift from what ./check actually runs."""
import json
import os

VERIF = os.path.dirname(os.path.dirname(os.path.abspath(__file__)))

NOT_APPLICABLE = {
    "C03": "totality of compile() over all texts needs the scanner/parser run on symbolic bytes; symbolic execution of Scanner::scan_token with 2 symbolic bytes does not finish in 900 s under Kani/CBMC, and the parser sits on top of it (DESIGN.md section 5)",
    "C07": "dispatch/super/Self semantics arise from the compiler's hidden locals plus VM paths over hashbrown method tables; neither compile() nor multi-instruction run() is encodable within reach and no leaf kernel decides the property (DESIGN.md section 5)",
    "C08": "handler pairing is produced by try_statement's emission and consumed by the VM across whole functions; needs compile()+run(), a VM-only step spec would pin an internal protocol and raise false alarms (DESIGN.md section 5)",
    "C14": "import = host loader + compile() + run() + module table; nothing smaller carries the property (DESIGN.md section 5)",
    "C15": "residue across interpret() calls is only observable by compiling and running snippets; compile()/run() are out of reach of the solver (DESIGN.md section 5)",
    "C17": "line attribution is the parallel lines array filled by the compiler and read back through saved frame ips during a run; both ends need compile()/run() (DESIGN.md section 5)",
    "C19": "the round trip is std's float formatter/parser (digit loops, big-number arithmetic: weak target for bit-blasting) and the lexer look-ahead needs the scanner on symbolic bytes (DESIGN.md section 5)",
}

ALL = ["C%02d" % i for i in range(1, 20)]


def main():
    checks = []
    na = []
    for pid in ALL:
        spec_path = os.path.join(VERIF, "harness", pid, "spec.json")
        if os.path.exists(spec_path):
            spec = json.load(open(spec_path))
            m = spec.get("manifest")
            if m and m.get("claimed", True) and m.get("ready", True):
                has_thorough = any(g.get("tier") == "thorough" for g in spec["groups"])
                c = {
                    "property_id": pid,
                    "quick_cmd": "./check %s --tier quick" % pid,
                    "evidence_file": "/verif/evidence/%s.json" % pid,
                    "replay_cmd_template": "./check %s --replay {path}" % pid,
                    "engine": "kani-cbmc",
                    "level_claimed": {
                        "category": "model_checking",
                        "text": m["level_text"],
                        "design_ref": m.get("design_ref", "DESIGN.md section 4"),
                    },
                    "level_note": m["level_note"],
                    "technique": m.get("technique", "bounded symbolic execution of the real Rust code (Kani 0.68 / CBMC 6.11, SAT back end), unwinding assertions on"),
                }
                c["thorough_cmd"] = "./check %s --tier thorough" % pid
                checks.append(c)
                continue
            elif m and m.get("claimed", True) and not m.get("ready", True):
                na.append({"property_id": pid, "reason": "check under construction in this revision of /verif (harnesses written, not yet passing within budget on the unchanged tree); not claimed until it does"})
                continue
            elif m and not m.get("claimed", True):
                na.append({"property_id": pid, "reason": m["reason"]})
                continue
        if pid in NOT_APPLICABLE:
            na.append({"property_id": pid, "reason": NOT_APPLICABLE[pid]})
        else:
            na.append({"property_id": pid, "reason": "check not built yet in this revision of /verif (planned, see DESIGN.md section 4); not claimed until its harnesses pass on the unchanged tree"})
    manifest = {
        "version": 1,
        "setup_cmd": "./setup.sh",
        "hooks": {
            "guard": "cfg(kani)",
            "enable": "no source hooks are committed to /repo: ./check copies /repo to a scratch directory and appends #[cfg(kani)] child modules (harness/) to the files that own the private items; cfg(kani) is set only by the Kani compiler",
            "baseline_off_cmd": "./tools/baseline.sh",
            "source_commits": [],
            "add_only": True,
        },
        "engines": [
            {"name": "kani-cbmc", "path": "/verif/check", "serves_properties": [c["property_id"] for c in checks],
             "kind_free_text": "bounded model checking of the real Rust code: Kani 0.68 (MIR -> goto) + CBMC 6.11 + CaDiCaL; one #[kani::proof] harness per obligation, injected into a scratch copy of /repo's working tree on every run"}
        ],
        "checks": checks,
        "not_applicable": na,
        "notes": "exit 0 = held on everything explored; exit 1 + 'VIOLATION property=<id> replay=<path>'; exit 2 = inconclusive (build failure after a rename, timeout, out of memory, candidate that does not reproduce natively) - never reported as success. Known findings: /verif/known_findings.json. Scratch space: /var/tmp/yarel-verif (removed after each run).",
    }
    with open(os.path.join(VERIF, "MANIFEST.json"), "w") as f:
        json.dump(manifest, f, indent=1)
    print("claimed:", [c["property_id"] for c in checks])
    print("not applicable:", [n["property_id"] for n in na])


if __name__ == "__main__":
    main()
