#!/bin/bash
# try_mutant.sh <seed-id> <property> [tier]: apply /verif/seeded/<seed-id>/patch.diff to /repo, run the
# check, undo the change straight afterwards. Evidence files are not touched (--no-evidence).
ID=$1; PID=$2; TIER=${3:-quick}
cd /repo && git status --short | grep -q . && { echo "/repo not clean"; exit 2; }
git -C /repo apply /verif/seeded/$ID/patch.diff || exit 2
cd /verif && ./check $PID --tier $TIER --no-evidence ${4:-}; rc=$?
git -C /repo checkout -- .
echo "try_mutant $ID $PID tier=$TIER rc=$rc"
exit $rc
