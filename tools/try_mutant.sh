#!/bin/bash
# try_mutant.sh <seed-id> <property> [tier] [extra check args]
# Runs a check against a seeded change WITHOUT touching /repo: /repo's working tree is copied to a
# scratch directory, the patch applied there, and ./check pointed at the copy (VERIF_REPO).
# (Equivalent to `git -C /repo apply <patch>; ./check ..; git -C /repo checkout -- .`, but several
# trials can run in parallel and /repo stays clean.) Evidence files are not touched.
ID=$1; PID=$2; TIER=${3:-quick}; shift 3 2>/dev/null
D=/var/tmp/yarel-verif/mut-$ID-$PID-$$
mkdir -p $D && rsync -a --exclude target --exclude .git /repo/ $D/repo/ || exit 2
(cd $D/repo && patch -p1 -s < /verif/seeded/$ID/patch.diff) || { echo "patch failed"; rm -rf $D; exit 2; }
cd /verif && VERIF_REPO=$D/repo ./check $PID --tier $TIER --no-evidence "$@"; rc=$?
rm -rf $D
echo "try_mutant $ID $PID tier=$TIER rc=$rc"
exit $rc
