#!/usr/bin/env python3
"""seed_matrix.py [--tier quick] [--jobs N] [--only REGEX] [--checks C01,C02 (override which checks to run per seed)]

Runs the registered check of each seeded change's property against a scratch copy of /repo with that
change applied (tools/try_mutant.sh; /repo itself is not touched, evidence files are not written) and
records the outcome in seeded/<id>/meta.json ("detected_by") and seeded/MATRIX.md.
A seed counts as detected only if the check exits 1 and prints a VIOLATION line for the property."""
import argparse
import concurrent.futures as cf
import json
import os
import re
import subprocess
import time

VERIF = os.path.dirname(os.path.dirname(os.path.abspath(__file__)))


def main():
    ap = argparse.ArgumentParser()
    ap.add_argument("--tier", default="quick")
    ap.add_argument("--jobs", type=int, default=2)
    ap.add_argument("--only", default=None)
    ap.add_argument("--check-jobs", type=int, default=6)
    args = ap.parse_args()
    seeds = sorted(d for d in os.listdir(os.path.join(VERIF, "seeded")) if os.path.isdir(os.path.join(VERIF, "seeded", d)))
    if args.only:
        seeds = [s for s in seeds if re.search(args.only, s)]
    manifest = json.load(open(os.path.join(VERIF, "MANIFEST.json")))
    claimed = {c["property_id"] for c in manifest["checks"]}
    os.makedirs("/var/tmp/yarel-verif/matrix", exist_ok=True)

    def run(seed):
        meta_p = os.path.join(VERIF, "seeded", seed, "meta.json")
        meta = json.load(open(meta_p))
        pid = meta["property"]
        if not os.path.exists(os.path.join(VERIF, "harness", pid, "spec.json")):
            return seed, pid, None, "no check for this property", 0
        logp = "/var/tmp/yarel-verif/matrix/%s.log" % seed
        t0 = time.time()
        with open(logp, "w") as lf:
            rc = subprocess.call([os.path.join(VERIF, "tools", "try_mutant.sh"), seed, pid, args.tier, "--jobs", str(args.check_jobs)],
                                 stdout=lf, stderr=subprocess.STDOUT)
        out = open(logp).read()
        viol = re.findall(r"^VIOLATION property=%s .*?harness=(\S+) config=(\S+) check=(.*?) at " % pid, out, re.M)
        inc = re.findall(r"^INCONCLUSIVE .*$", out, re.M)
        return seed, pid, rc, {"violations": viol, "inconclusive": inc[:5]}, time.time() - t0

    rows = []
    with cf.ThreadPoolExecutor(max_workers=args.jobs) as ex:
        for seed, pid, rc, info, wall in ex.map(run, seeds):
            meta_p = os.path.join(VERIF, "seeded", seed, "meta.json")
            meta = json.load(open(meta_p))
            if rc is None:
                det = {"tier": args.tier, "detected": False, "why": info}
            else:
                det = {"tier": args.tier, "exit": rc, "detected": rc == 1 and bool(info["violations"]),
                       "harnesses": sorted(set("%s[%s]" % (h, c) for h, c, _ in info["violations"])),
                       "checks": sorted(set(d for _, _, d in info["violations"]))[:6],
                       "inconclusive": info["inconclusive"], "claimed": pid in claimed, "wall_s": round(wall)}
            meta["detected_by"] = det
            json.dump(meta, open(meta_p, "w"), indent=1)
            rows.append((seed, pid, det))
            print(seed, pid, json.dumps(det)[:300], flush=True)
    # matrix over ALL seeds (including those not re-run now)
    lines = ["# Seeded changes vs. checks", "",
             "Produced by tools/seed_matrix.py: each change is applied to a scratch copy of /repo and the property's",
             "registered command is run against it. `detected` = exit 1 with a VIOLATION line.", "",
             "| seed | property | claimed | change | needs | detected (tier) | by harness |", "|---|---|---|---|---|---|---|"]
    for seed in sorted(d for d in os.listdir(os.path.join(VERIF, "seeded")) if os.path.isdir(os.path.join(VERIF, "seeded", d))):
        meta = json.load(open(os.path.join(VERIF, "seeded", seed, "meta.json")))
        det = meta.get("detected_by") or {}
        lines.append("| %s | %s | %s | %s | %s | %s | %s |" % (
            seed, meta["property"], "yes" if meta["property"] in claimed else "no",
            meta.get("change", "").replace("|", "/")[:160], meta.get("needs_to_manifest", "").replace("|", "/")[:160],
            ("YES" if det.get("detected") else "no (exit %s)" % det.get("exit", "-")) + " (%s)" % det.get("tier", "-"),
            ", ".join(h.split("::")[-1] for h in det.get("harnesses", []))[:200]))
    open(os.path.join(VERIF, "seeded", "MATRIX.md"), "w").write("\n".join(lines) + "\n")


if __name__ == "__main__":
    main()
