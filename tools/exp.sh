#!/bin/bash
# exp.sh <PID> <checked|optimised> <harness-name> [timeout_s] [mem_gb]
# Development aid: (re)inject the current /verif harnesses into a persistent scratch copy and run ONE
# harness with cargo kani directly (incremental target dir), printing a compact summary.
PID=$1; CFG=$2; H=$3; TO=${4:-900}; MEM=${5:-30}
D=/var/tmp/yarel-verif/exp-$PID
cd /verif && ./check $PID --prepare $D >/dev/null || exit 2
cd $D/$CFG/repo || exit 2
LOG=$D/$CFG-$(echo $H | tr -c 'A-Za-z0-9_' _).log
export CARGO_NET_OFFLINE=true
( ulimit -v $((MEM*1024*1024)); timeout $TO cargo kani -p yarel -Z stubbing -Z unstable-options --target-dir $D/target-$CFG --harness "$H" $EXP_EXTRA > $LOG 2>&1 )
echo "rc=$? log=$LOG"
grep -v "aborting path\|Unwinding loop\|Not unwinding" $LOG | grep -E "^error|Checking harness|Runtime Symex|Runtime Convert|variables,|Runtime decision|VERIFICATION|Verification Time|failed|Failed Checks|File:|SATISFIED|UNSATISFIABLE|Status: (FAILURE|ERROR|UNDETERMINED)|out of memory|bad_alloc|Complete -" | cut -c1-220 | head -${LINES_MAX:-60}
