#!/bin/bash
# try_revert.sh <repo-commit> <property> [tier] [extra check args]
# Runs a check against /repo's working tree with one of its commits (a "fix:" commit) reverted, on a
# scratch copy; /repo is not touched. A check that claims the fixed defect must report a VIOLATION.
C=$1; PID=$2; TIER=${3:-quick}; shift 3 2>/dev/null
D=/var/tmp/yarel-verif/rev-$C-$PID-$$
mkdir -p $D && rsync -a --exclude target --exclude .git /repo/ $D/repo/ || exit 2
git -C /repo show $C -- yarel/src | (cd $D/repo && patch -R -p1 -s) || { echo "revert failed"; rm -rf $D; exit 2; }
cd /verif && VERIF_REPO=$D/repo ./check $PID --tier $TIER --no-evidence "$@"; rc=$?
rm -rf $D
echo "try_revert $C $PID tier=$TIER rc=$rc"
exit $rc
