#!/bin/bash
# run_seq.sh <tier> <PID>...   runs the checks one after the other (memory: no swap on this machine)
TIER=$1; shift
for P in "$@"; do
  ( cd /verif && ./check $P --tier $TIER > /var/tmp/yarel-verif/all-$P.log 2>&1; echo "$P rc=$? $(tail -n 1 /var/tmp/yarel-verif/all-$P.log)" >> /var/tmp/yarel-verif/all-summary.log )
done
