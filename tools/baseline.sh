#!/bin/bash
# Runs the repository's own test suite (guard off: the verification machinery never edits /repo,
# cfg(kani) is only ever set by the Kani compiler on a scratch copy).
# Exit 0 iff exactly the 546 baseline tests pass (number_long_decimal is a known baseline failure).
cd /repo || exit 2
export CARGO_NET_OFFLINE=true
if command -v cargo-nextest >/dev/null && [ -f /w/lib/nextest.toml ]; then
  out=$(cargo nextest run --workspace --no-fail-fast --tool-config-file pb:/w/lib/nextest.toml --profile pb --test-threads 8 --offline 2>&1)
  passed=$(echo "$out" | grep -oE '[0-9]+ passed' | tail -1 | grep -oE '[0-9]+')
  failed=$(echo "$out" | grep -E '^\s+FAIL ' | grep -v number_long_decimal | wc -l)
else
  out=$(cargo test --workspace --no-fail-fast --offline 2>&1)
  passed=$(echo "$out" | grep -E '^test .* \.\.\. ok$' | wc -l)
  failed=$(echo "$out" | grep -E '^test .* \.\.\. FAILED$' | grep -v number_long_decimal | wc -l)
fi
echo "$out" | tail -5
echo "passed=$passed unexpected_failures=$failed"
[ "$passed" = "546" ] && [ "$failed" = "0" ]
