#!/bin/bash
# confirm_mutant.sh <worktree> <seed-id>
# Independently confirms a seeded change delivered in <worktree>/MUTANT: patch applies to a clean
# checkout, workspace builds, the 546 baseline tests still pass, the demonstration passes without the
# change and fails with it. On success copies the material to /verif/seeded/<seed-id>/.
set -u
WT=$1; ID=$2
export CARGO_NET_OFFLINE=true
OUT=/var/tmp/yarel-verif/confirm-$ID
rm -rf "$OUT"; mkdir -p "$OUT"
cp -r "$WT/MUTANT" "$OUT/MUTANT" || exit 2
cd "$WT" || exit 2
git checkout -q -- . ; git clean -qfd -e MUTANT -e target
demo() {  # prints PASS or FAIL
  if [ -f "$OUT/MUTANT/run.sh" ]; then
    (cd "$WT" && bash "$WT/MUTANT/run.sh" > "$OUT/demo.$1.log" 2>&1) && echo PASS || echo FAIL
  elif [ -f "$OUT/MUTANT/demo.yl" ]; then
    cargo build --offline -q -p yarel-cli 2>/dev/null
    (cd "$OUT/MUTANT" && timeout 120 "$WT/target/debug/yarel-cli" demo.yl > "$OUT/demo.$1.out" 2>&1)
    if diff -q "$OUT/MUTANT/expected.txt" "$OUT/demo.$1.out" >/dev/null; then echo PASS; else echo FAIL; fi
  else
    echo "NO-DEMO"
  fi
}
echo "== demo on clean tree"; R0=$(demo clean); echo "$R0"
echo "== apply patch"; git apply "$OUT/MUTANT/patch.diff" || { echo "patch does not apply"; exit 2; }
git diff --stat
echo "== build"; cargo build --offline --workspace 2>&1 | tail -1
echo "== tests"
T=$(cargo test --workspace --no-fail-fast --offline 2>&1)
PASSED=$(echo "$T" | grep -E '^test .* \.\.\. ok$' | wc -l)
FAILED=$(echo "$T" | grep -E '^test .* \.\.\. FAILED$' | grep -v number_long_decimal | wc -l)
echo "passed=$PASSED unexpected_failures=$FAILED"
echo "== demo with change"; R1=$(demo mutant); echo "$R1"
git checkout -q -- .
if [ "$R0" = PASS ] && [ "$R1" = FAIL ] && [ "$PASSED" = 546 ] && [ "$FAILED" = 0 ]; then
  mkdir -p /verif/seeded/$ID && cp -r "$OUT/MUTANT/." /verif/seeded/$ID/ && echo "CONFIRMED $ID -> /verif/seeded/$ID"
  rm -rf "$OUT"; exit 0
else
  echo "NOT CONFIRMED $ID (clean=$R0 mutant=$R1 passed=$PASSED failed=$FAILED); material kept in $OUT"; exit 1
fi
