#!/bin/bash
# Offline set-up: nothing to download or build ahead of time. Checks compile their scratch copy of
# /repo with `cargo kani` on every run. This script only verifies the tool chain is present.
set -e
cd "$(dirname "$0")"
export CARGO_NET_OFFLINE=true
command -v cargo >/dev/null
cargo kani --version
command -v cbmc >/dev/null
command -v rsync >/dev/null
mkdir -p /var/tmp/yarel-verif evidence
chmod +x check tools/*.sh tools/*.py 2>/dev/null || true
echo "setup ok"
