import sys
# if (false) { body } : body made of `nil;` statements (Nil, Pop = 2 bytes each) and one `1;` (Constant idx16, Pop = 4 bytes)
n=int(sys.argv[1]); extra=sys.argv[2] if len(sys.argv)>2 else ""
print("var hit = false;")
print("if (false) {")
print("hit = true;")
print("nil;\n"*n + extra)
print("}")
print("print(hit);")
